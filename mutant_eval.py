#!/venv/bin/python
"""Evaluate seeded changes: apply /verif/seeded/<id>/patch.diff to a scratch worktree of /repo (never /repo itself),
run the given checks with VERIF_REPO pointing at it, report which ones raise VIOLATION.
usage: mutant_eval.py <seeded-dir-or-patch> [--checks C01,C02|all] [--tier quick] [--suite] [--demo]"""
import os, sys, json, subprocess, shutil, argparse, time

ap = argparse.ArgumentParser()
ap.add_argument('target')
ap.add_argument('--checks', default=None)
ap.add_argument('--tier', default='quick')
ap.add_argument('--suite', action='store_true')
ap.add_argument('--demo', action='store_true')
ap.add_argument('--wt', default=None)
a = ap.parse_args()
target = os.path.abspath(a.target)
if os.path.isdir(target):
    patch = os.path.join(target, 'patch.diff')
    meta = json.load(open(os.path.join(target, 'meta.json'))) if os.path.exists(os.path.join(target, 'meta.json')) else {}
else:
    patch, meta = target, {}
checks = a.checks or meta.get('property') or 'all'
if checks == 'all':
    checks = ['C%02d' % i for i in range(1, 21)]
else:
    checks = checks.split(',')
wt = a.wt or '/tmp/mutrun-%d' % os.getpid()
subprocess.check_call(['git', '-C', '/repo', 'worktree', 'add', '--detach', wt, 'HEAD'], stdout=subprocess.DEVNULL, stderr=subprocess.DEVNULL)
res = {'patch': patch, 'checks': {}}
try:
    if subprocess.call(['git', '-C', wt, 'apply', patch], stderr=subprocess.DEVNULL) != 0:
        # /repo has moved on (later fix: commits): rebase the change with a 3-way apply and keep the rebased diff
        subprocess.check_call(['git', '-C', wt, 'apply', '-3', patch])
        subprocess.call(['git', '-C', wt, 'reset', '-q'])
        rebased = subprocess.check_output(['git', '-C', wt, 'diff'])
        if os.path.isdir(target) and rebased.strip():
            orig = os.path.join(target, 'patch.orig.diff')
            if not os.path.exists(orig):
                shutil.copy(patch, orig)
            with open(patch, 'wb') as f:
                f.write(rebased)
            print('patch rebased onto the current /repo HEAD')
    env = dict(os.environ, VERIF_REPO=wt, VERIF_EVIDENCE_DIR='/tmp/mut_evidence/%s' % os.path.basename(wt), VERIF_REPLAY_DIR='/tmp/mut_replays/%s' % os.path.basename(wt))
    if a.demo and os.path.exists(os.path.join(os.path.dirname(patch), 'demo.py')):
        demo = os.path.join(os.path.dirname(patch), 'demo.py')
        p = subprocess.run(['timeout', '-k', '5', '300', '/venv/bin/python', demo, wt], stdout=subprocess.PIPE, stderr=subprocess.STDOUT, cwd='/tmp')
        res['demo_with_patch_rc'] = p.returncode
        p = subprocess.run(['timeout', '-k', '5', '300', '/venv/bin/python', demo, '/repo'], stdout=subprocess.PIPE, stderr=subprocess.STDOUT, cwd='/tmp')
        res['demo_without_patch_rc'] = p.returncode
    if a.suite:
        p = subprocess.run('cd %s && timeout -k 5 1500 /venv/bin/python -m pytest -q -p no:cacheprovider --timeout=900 tests 2>&1 | tail -3' % wt,
                           shell=True, stdout=subprocess.PIPE)
        res['suite'] = p.stdout.decode()[-300:]
    for c in checks:
        t = time.time()
        p = subprocess.run(['./check', c, '--tier', a.tier], cwd=os.environ.get('VERIF_HOME', '/verif'), env=env, stdout=subprocess.PIPE, stderr=subprocess.STDOUT)
        out = p.stdout.decode()
        sigs = [l.strip()[:200] for l in out.splitlines() if l.strip().startswith('sig=')]
        res['checks'][c] = {'rc': p.returncode, 'violations': out.count('\nVIOLATION') + out.startswith('VIOLATION'), 'sigs': sigs[:4],
                            'wall_s': round(time.time() - t, 1)}
        print(c, 'rc=%d' % p.returncode, 'violations=%d' % res['checks'][c]['violations'], sigs[:1], flush=True)
finally:
    subprocess.call(['git', '-C', '/repo', 'worktree', 'remove', '--force', wt], stdout=subprocess.DEVNULL, stderr=subprocess.DEVNULL)
    shutil.rmtree(wt, ignore_errors=True)
print(json.dumps(res, indent=1))
