#!/venv/bin/python
"""Regenerates MANIFEST.json from the table below (kept next to the code so it cannot drift)."""
import json, os
HERE = os.path.dirname(os.path.abspath(__file__))
props = [json.loads(l) for l in open(os.path.join(HERE, 'properties.jsonl'))]
CHECKS = json.load(open(os.path.join(HERE, 'checks.json')))
checks, na = [], []
for p in props:
    c = CHECKS.get(p['id'])
    if c is None or c.get('not_applicable'):
        na.append({'property_id': p['id'], 'reason': (c or {}).get('not_applicable', 'check not built yet (work in progress; see DESIGN.md section 3)')})
        continue
    checks.append({
        'property_id': p['id'],
        'quick_cmd': './check %s --tier quick' % p['id'],
        'thorough_cmd': './check %s --tier thorough' % p['id'],
        'evidence_file': '/verif/evidence/%s.json' % p['id'],
        'replay_cmd_template': './check %s --replay {path}' % p['id'],
        'engine': c['engine'],
        'level_claimed': {'category': c['level'], 'text': c['text'], 'design_ref': c['design_ref']},
        'level_note': c['note'],
        'technique': c['technique'],
    })
m = {
    'version': 1,
    'setup_cmd': '/venv/bin/python -m compileall -q /verif/vf >/dev/null; cd /verif && /venv/bin/python -c "import vf.core"',
    'hooks': {
        'guard': 'DATAFLOWS_VERIF',
        'enable': 'no source hooks exist: the harness interposes from outside (module attributes, builtins.open, os.rename, audit hooks); ./check exports DATAFLOWS_VERIF=1 for uniformity only',
        'baseline_off_cmd': 'cd /repo && /venv/bin/python -m pytest -ra -q -p no:cacheprovider --timeout=900 --continue-on-collection-errors',
        'source_commits': [],
        'add_only': True,
    },
    'engines': json.load(open(os.path.join(HERE, 'engines.json'))),
    'checks': checks,
    'not_applicable': na,
    'notes': 'All checks explore the real implementation (imported from /repo working tree) exhaustively within stated bounds; see DESIGN.md. Genuine defects found were repaired by fix: commits in /repo or listed in KNOWN_FINDINGS.txt.',
}
json.dump(m, open(os.path.join(HERE, 'MANIFEST.json'), 'w'), indent=1)
import jsonschema
jsonschema.validate(m, json.load(open('/root/.vp/MANIFEST.schema.json')))
print('MANIFEST ok: %d checks, %d not_applicable' % (len(checks), len(na)))
