#!/bin/sh
# Run the repository's pinned suite (guard off) detached; results in $1 (default /tmp/suite.log)
# usage: tools_suite.sh [repo_dir] [log]
REPO=${1:-/repo}; LOG=${2:-/tmp/suite.log}
cd "$REPO" && env -u DATAFLOWS_VERIF setsid nohup timeout -k 5 1500 /venv/bin/python -m pytest -ra -q -p no:cacheprovider --timeout=900 --continue-on-collection-errors > "$LOG" 2>&1 &
