#!/bin/sh
# Runs every registered quick (or $1=thorough) check once; prints one status line per property.
TIER=${1:-quick}
for p in C01 C02 C03 C04 C05 C06 C07 C08 C09 C10 C11 C12 C13 C14 C15 C16 C17 C18 C19 C20; do
  s=$(date +%s)
  ./check $p --tier $TIER > /tmp/runall_$p.log 2>&1; rc=$?
  e=$(date +%s)
  echo "$p rc=$rc $((e-s))s viol=$(grep -c '^VIOLATION' /tmp/runall_$p.log) known=$(grep -c '^KNOWN-FINDING' /tmp/runall_$p.log) $(grep -o 'evaluations=[0-9]*' /tmp/runall_$p.log)"
done
