"""E1 - pipeline explorer: explicit-state exploration over step sequences on the real processors.

State = materialised package (descriptor + rows).  Transition = one real step applied to from_state(S).
For every path the lazy chained run is compared with the stepwise state (C01); every state and every lazy
result is checked against the descriptor/row invariant (C02)."""
import os
import re
import copy
import hashlib
import functools
import itertools

import tableschema
from datapackage import Package

from . import core
from .core import S, Env, State, run_steps, mkstate, cj, enc_rows, h

# ------------------------------------------------------------------------------------------------
# user links in every callable kind


def collections_deque(it):
    import collections
    collections.deque(it, maxlen=0)


def _mark(env, tag):
    env.markers.add(tag)


def _row_inplace(env, tag, row):
    _mark(env, tag)
    if isinstance(row.get('a'), int) and not isinstance(row.get('a'), bool):
        row['a'] += 1


def _row_new(env, tag, row):
    _mark(env, tag)
    new = dict(row)
    if isinstance(new.get('b'), str):
        new['b'] += '!'
    return new


def _rows(env, tag, rows):
    _mark(env, tag)
    for r in rows:
        if r.get('a') != 2:
            yield r


def _rows_peek(env, tag, rows):
    """Semantically the identity: looks at the first row, then passes every row on (iterates its argument twice)."""
    _mark(env, tag)
    first = next(iter(rows), None)
    if first is not None:
        yield first
    for r in rows:
        yield r


def _rows_empty(env, tag, rows):
    """Returns an empty sequence without looking at its argument: every selected resource ends up with no rows."""
    _mark(env, tag)
    return []


def _package(env, tag, package):
    _mark(env, tag)
    package.pkg.descriptor['title'] = 'U'
    yield package.pkg
    for res in package:
        yield (r for r in res)


def _package_eager(env, tag, package):
    """Asks for every resource before reading a row of any (as a step that reorders or pairs up resources does), then
    hands them on in the original order."""
    _mark(env, tag)
    yield package.pkg
    streams = list(package)
    for res in streams:
        yield (r for r in res)


ROLE_IMPL = {'row_inplace': (_row_inplace, 'row'), 'row_new': (_row_new, 'row'), 'rows': (_rows, 'rows'),
             'package': (_package, 'package'), 'rows_peek': (_rows_peek, 'rows'), 'rows_empty': (_rows_empty, 'rows'),
             'package_eager': (_package_eager, 'package')}
IDENTITY_LINKS = {'user:rows_peek:%s' % k for k in ('function', 'lambda', 'method', 'partial', 'object')}
EMPTYING_LINKS = {'user:rows_empty:%s' % k for k in ('function', 'lambda', 'method', 'partial', 'object')}
KINDS = ['function', 'lambda', 'method', 'partial', 'object']


def make_user_link(env, role, kind, tag):
    impl, param = ROLE_IMPL[role]
    ns = {'impl': impl, 'env': env, 'tag': tag, 'functools': functools}
    if kind == 'function':
        if role in ('rows', 'package', 'package_eager'):
            src = 'def f({p}):\n    yield from impl(env, tag, {p})\n'
        else:
            src = 'def f({p}):\n    return impl(env, tag, {p})\n'
        exec(src.format(p=param), ns)
        return ns['f']
    if kind == 'lambda':
        exec('f = lambda {p}: impl(env, tag, {p})'.format(p=param), ns)
        return ns['f']
    if kind == 'method':
        exec('class K:\n    def m(self, {p}):\n        return impl(env, tag, {p})\n'.format(p=param), ns)
        return ns['K']().m
    if kind == 'partial':
        exec('def g(env_, tag_, {p}):\n    return impl(env_, tag_, {p})\n'.format(p=param), ns)
        return functools.partial(ns['g'], env, tag)
    if kind == 'object':
        exec('class K:\n    def __call__(self, {p}):\n        return impl(env, tag, {p})\n'.format(p=param), ns)
        return ns['K']()
    raise AssertionError(kind)


@core.builder('user')
def _b_user(step, env):
    tag = 'u%d' % env.pos
    env.expected_markers.add(tag)
    return make_user_link(env, step['role'], step['kind'], tag)


class _NoProtocol:
    pass


@core.builder('nonlink')
def _b_nonlink(step, env):
    what = step['what']
    if what == 'callable2':
        def two(row, factor=10):
            row['a'] = factor
        return two
    if what == 'callable0':
        return lambda: None
    if what == 'callable-badname':
        def bad(record):
            return record
        return bad
    if what == 'package-fewer-streams':
        # declares one more resource than it hands row streams for
        def short(package):
            package.pkg.descriptor['resources'].append({'name': 'phantom', 'path': 'phantom.csv', 'profile': 'tabular-data-resource',
                                                       'schema': {'fields': [{'name': 'p', 'type': 'string'}]}})
            yield package.pkg
            yield from package
        return short
    if what == 'package-first-only':
        def first_only(package):
            yield package.pkg
            for i, res in enumerate(package):
                if i == 0:
                    yield res
                else:
                    collections_deque(res)
        return first_only
    if what == 'partial2':
        def three(a, rows, tag='x'):
            yield from rows
        return functools.partial(three, 1)
    return {'none': None, 'int': 5, 'object': _NoProtocol()}[what]


@core.fn('e1_printer_sink')
def _printer_sink(env):
    def sink(x, kwargs=None):
        env.log.append(['print', str(x)])
    return sink


@core.fn('e1_finalizer_cb')
def _finalizer_cb(env):
    def cb():
        env.log.append(['finalizer'])
    return cb


@core.fn('e1_par_rowfunc')
def _par_rowfunc(row):
    if isinstance(row.get('b'), str):
        row['b'] = row['b'] + '~'


@core.builder('gen150')
def _b_gen150(step, env):
    def gen():
        # one-shot generator crossing the 100-row inference sample (values stay within the inferred types: the loader
        # casts every row with the schema inferred from the sample)
        for i in range(150):
            yield {'n': i, 't': 's%d' % i if i % 7 else None, 'x': i / 10}
    return gen()


@core.builder('gen_fail120')
def _b_gen_fail120(step, env):
    def gen():
        # a source that breaks beyond the 100-row inference sample
        for i in range(120):
            yield {'n': i, 't': 's%d' % i}
        raise RuntimeError('source breaks at row 120')
    return gen()


@core.builder('row_fail2')
def _b_row_fail2(step, env):
    seen = [0]

    def failing(row):
        seen[0] += 1
        if seen[0] == 2:
            raise RuntimeError('row function fails on the second row it sees')
    return failing


@core.builder('row_stopiter1')
def _b_row_stopiter1(step, env):
    def failing(row):
        # e.g. next() on an exhausted side iterator: a failure like any other
        raise StopIteration('row function fails with StopIteration on the first row it sees')
    return failing


@core.builder('load_tuple')
def _b_load_tuple(step, env):
    st = mkstate([('lt', [('a', 'integer'), ('q', 'string')], [{'a': 5, 'q': 'u'}, {'a': 6, 'q': 'v'}])])
    return core.dataflows.load((copy.deepcopy(st.desc), [iter(copy.deepcopy(r)) for r in st.rows]))


@core.builder('sources2')
def _b_sources(step, env):
    return core.dataflows.sources([{'sa': 1}, {'sa': 2}], [{'sb': 'x'}])


@core.builder('checkpoint_first')
def _b_checkpoint(step, env):
    return core.dataflows.checkpoint('cp%d' % env.pos, checkpoint_path=env.path('checkpoints'))


# ------------------------------------------------------------------------------------------------
# alphabets (each instance chosen to collide on resources r1/r2 and fields a/b)
JOIN_FIELDS = {'b': {'name': 'b', 'aggregate': 'last'}, 'n': {'name': 'a', 'aggregate': 'count'}}

BUILTINS = {
    'add_field': S('add_field', 'z', 'integer', 7),
    'add_computed_sum': S('add_computed_field', [{'target': 's', 'operation': 'sum', 'source': ['a']}]),
    'add_computed_format': S('add_computed_field', [{'target': 'f', 'operation': 'format', 'with': '{a}-x'}]),
    'delete_fields': S('delete_fields', ['b'], resources='r1'),
    'select_fields': S('select_fields', ['a']),
    'rename_fields': S('rename_fields', {'a': 'a2'}),
    'set_type': S('set_type', 'a', type='number', resources=None),
    'validate': S('validate'),
    'filter_rows': S('filter_rows', equals=[{'a': 1}]),
    'find_replace': S('find_replace', [{'name': 'b', 'patterns': [{'find': 'x|z', 'replace': 'w'}]}], resources='r1'),
    'unpivot': S('unpivot', [{'name': 'b', 'keys': {'k': 'b'}}], [{'name': 'k', 'type': 'string'}],
                 {'name': 'v', 'type': 'string'}, resources='r1'),
    'concatenate': S('concatenate', {'a': []}, {'name': 'cc'}),
    'concatenate_r1r2': S('concatenate', {'a': []}, {'name': 'c12'}, resources=['r1', 'r2']),
    'duplicate': S('duplicate', 'r1'),
    'duplicate_end': S('duplicate', 'r1', duplicate_to_end=True),
    'delete_resource': S('delete_resource', 'r2'),
    'update_resource': {'op': 'update_resource', 'a': ['r1'], 'k': {'name': 'r9'}},
    'update_schema': {'op': 'update_schema', 'a': ['r1'], 'k': {'missingValues': ['', '-']}},
    'update_package': S('update_package', title='T'),
    'set_primary_key': S('set_primary_key', ['a']),
    'deduplicate': S('deduplicate'),
    'sort_rows': S('sort_rows', '{a}', reverse=True),
    'join_keep': S('join', 'r1', ['a'], 'r2', ['a'], JOIN_FIELDS, source_delete=False),
    'join_delete': S('join', 'r1', ['a'], 'r2', ['a'], JOIN_FIELDS, source_delete=True, mode='inner'),
    'join_with_self': S('join_with_self', 'r1', ['a'], {'a': None, 'cnt': {'aggregate': 'count'}}),
    'printer': S('printer', header_print={'$fn': 'e1_printer_sink', 'env': True},
                 table_print={'$fn': 'e1_printer_sink', 'env': True}),
    'dump_to_path': S('dump_to_path', {'$path': 'dump'}),
    'dump_to_path_json': S('dump_to_path', {'$path': 'dumpj'}, format='json'),
    'stream': S('stream', {'$path': 'st/stream.ndjson'}),
    'checkpoint': {'op': 'checkpoint_first'},
    'finalizer': S('finalizer', {'$fn': 'e1_finalizer_cb', 'env': True}),
    'update_stats': S('update_stats', {'k': 1}),
    # (x: fractions that are not exact in binary - an in-memory source delivers them as the numbers its schema declares)
    'iterable': {'op': 'iterable', 'rows': [{'a': 9, 'w': 'i', 'x': {'$float': '0.1'}}, {'a': 8, 'w': None, 'x': {'$float': '0.2'}}]},
    'gen150': {'op': 'gen150'},
    'gen_fail120': {'op': 'gen_fail120'},
    'row_fail2': {'op': 'row_fail2'},
    'row_stopiter1': {'op': 'row_stopiter1'},
    'load_tuple': {'op': 'load_tuple'},
    'sources': {'op': 'sources2'},
    'parallelize1': S('parallelize', {'$fn': 'e1_par_rowfunc'}, 1),
}
USER = {'user:%s:%s' % (r, k): {'op': 'user', 'role': r, 'kind': k} for r in ROLE_IMPL
        for k in (KINDS if r != 'package_eager' else ['function'])}
NONLINKS = {'nonlink:%s' % w: {'op': 'nonlink', 'what': w}
            for w in ('none', 'int', 'object', 'callable2', 'callable0', 'callable-badname', 'partial2', 'package-fewer-streams')}
SYMS = {}
SYMS.update(BUILTINS)
SYMS.update(USER)
SYMS.update(NONLINKS)

SIGMA_FULL = list(BUILTINS) + list(USER) + list(NONLINKS)                       # "Sigma56"
SIGMA_NOKIND = list(BUILTINS) + ['user:%s:function' % r for r in ROLE_IMPL]     # "Sigma37"
SIGMA_ROW = ['add_field', 'delete_fields', 'rename_fields', 'filter_rows', 'set_type', 'unpivot', 'duplicate',
             'concatenate', 'sort_rows', 'user:row_inplace:function', 'user:rows:function',
             'user:package:function', 'gen150', 'concatenate_r1r2', 'user:rows_peek:function']                                    # "Sigma12" + a one-shot generator source
MUST_FAIL_IF_ROWS = {'row_stopiter1'}      # fail as soon as one row reaches them
MUST_FAIL = {'gen_fail120'}      # links that fail by construction, whatever reaches them
FILE_WRITERS = {'dump_to_path', 'dump_to_path_json', 'stream', 'checkpoint'}
UNORDERED_SYMS = set()


def initial_states():
    r1 = ('r1', [('a', 'integer'), ('b', 'string')], [{'a': 1, 'b': 'x'}, {'a': 2, 'b': 'y'}, {'a': 1, 'b': 'z'}])
    r2 = ('r2', [('a', 'integer'), ('c', 'string')], [{'a': 1, 'c': 'p'}, {'a': 3, 'c': 'q'}])
    r3 = ('r3', [('a', 'integer')], [])
    r4 = ('r1b', [('a', 'integer'), ('b', 'string')], [{'a': 2, 'b': 'x'}])
    return {
        'P0': mkstate([r1, r2]),
        'P1': mkstate([r1, r2, r3]),
        'P3': mkstate([r1, r4, r2]),
        'P4': mkstate([r2, r1]),
    }


# ------------------------------------------------------------------------------------------------
def tree_snapshot(root):
    out = {}
    if not root or not os.path.isdir(root):
        return out
    for dp, dn, fn in os.walk(root):
        for f in fn:
            p = os.path.join(dp, f)
            with open(p, 'rb') as fh:
                out[os.path.relpath(p, root)] = fh.read()
    return out


STAT_KEYS = ('bytes', 'hash', 'count_of_rows')


def strip_stats(desc):
    """Descriptor without the counters a file dumper adds when its streams end."""
    d = copy.deepcopy(desc)
    for k in STAT_KEYS:
        d.pop(k, None)
    for r in d.get('resources', []):
        for k in STAT_KEYS:
            r.pop(k, None)
    return d


def norm_tree(tree):
    import json
    out = {}
    for k, v in tree.items():
        try:
            if k.endswith('datapackage.json'):
                v = cj(strip_stats(json.loads(v.decode('utf-8'))))
            elif k.endswith('.ndjson'):
                lines = v.decode('utf-8').split('\n')
                lines[0] = cj(strip_stats(json.loads(lines[0])))
                v = '\n'.join(lines)
        except Exception:
            pass
        out[k] = v
    return out


def first_dumper(path):
    for s in path:
        if s.startswith('dump_to_'):
            return s
    return path[0]


class Exec:
    """One execution: fresh env + scratch; returns kind, State|exc, side effects, markers."""

    def __init__(self):
        pass


def execute(steps, positions, via='datastream'):
    """steps: DSL list; positions: logical position of each step in the path (for $path / tags)."""
    with core.scratch_dir() as d:
        env = Env(d)
        env.expected_markers = set()
        env.pos = 0
        try:
            links = []
            for s, p in zip(steps, positions):
                env.pos = p
                links.append(build_link(s, env))
            with core.fake_mp():
                if via == 'datastream':
                    st = core.materialise(*links)
                    res = ('ok', st)
                elif via == 'results':
                    results, dp, stats = core.Flow(*links).results()
                    res = ('ok', State(copy.deepcopy(dp.descriptor), results), stats)
                elif via == 'process':
                    dp, stats = core.Flow(*links).process()
                    res = ('ok', State(copy.deepcopy(dp.descriptor), []), stats)
        except core.CaseTimeout:
            raise
        except Exception as e:
            res = ('exc', e)
        tree = tree_snapshot(d)
        return res, tree, env


def build_link(s, env):
    if s['op'] in ('flow', 'conditional_true'):
        sub = []
        for ss, pp in zip(s['steps'], s['positions']):
            env.pos = pp
            sub.append(build_link(ss, env))
        if s['op'] == 'flow':
            return core.Flow(*sub)
        return core.dataflows.conditional(lambda dp: True, core.Flow(*sub))
    return core.build(s, env)


def resolve_path_with_pos(env, rel):
    return os.path.join(env.scratch, 'p%d' % env.pos, rel)


# $path is position-qualified so that the same symbol at two positions writes to two places, and the stepwise run
# of position i writes where the lazy run's i-th step does.
def _env_path(self, rel):
    p = os.path.join(self.scratch, 'p%d' % getattr(self, 'pos', 0), rel)
    os.makedirs(os.path.dirname(p), exist_ok=True)
    return p


core.Env.path = _env_path


# ------------------------------------------------------------------------------------------------
# C02 invariant
_field_cache = {}


def _field(fd, mv):
    k = cj([fd, mv])
    f = _field_cache.get(k)
    if f is None:
        f = _field_cache[k] = tableschema.Field(fd, missing_values=mv)
    return f


def invariant(st, where):
    """Returns list of (oracle, what). st.tags may be None (results())."""
    out = []
    res = st.desc.get('resources', [])
    names = [r.get('name') for r in res]
    if len(st.rows) != len(res):
        out.append(('streams', '%s: %d row streams for %d resource descriptors' % (where, len(st.rows), len(res))))
    if st.tags is not None and st.tags != names[:len(st.tags)] and len(st.tags) == len(names):
        out.append(('pairing', '%s: streams tagged %r, descriptors %r' % (where, st.tags, names)))
    if len(set(names)) != len(names):
        out.append(('unique-names', '%s: duplicate resource names %r' % (where, names)))
    for r in res:
        pk = r.get('schema', {}).get('primaryKey')
        if pk is not None:
            pkl = [pk] if isinstance(pk, str) else list(pk)
            declared = [f['name'] for f in r.get('schema', {}).get('fields', [])]
            if len(set(pkl)) != len(pkl):       # (a key over an undeclared field is an ill-typed request, not checked here)
                # (the datapackage profile check below is lenient about this; the Table Schema profile is not)
                out.append(('invalid-primary-key', '%s: resource %r declares primaryKey %r over fields %r' % (where, r.get('name'), pk, declared)))
    for r, rows in zip(res, st.rows):
        schema = r.get('schema', {})
        mv = schema.get('missingValues', [''])
        fields = {f['name']: f for f in schema.get('fields', [])}
        for i, row in enumerate(rows):
            extra = [k for k in row if k not in fields]
            if extra:
                out.append(('undeclared-field', '%s: resource %r row %d carries undeclared %r' %
                            (where, r.get('name'), i, extra)))
                break
            bad = None
            for k, v in row.items():
                if v is None:
                    continue
                try:
                    _field(fields[k], mv).cast_value(v)
                except Exception:
                    bad = (k, v)
                    break
            if bad:
                out.append(('invalid-value:%s' % fields[bad[0]].get('type'),
                            '%s: resource %r row %d field %r (type %s) holds %r' %
                            (where, r.get('name'), i, bad[0], fields[bad[0]].get('type'), bad[1])))
                break
    try:
        # a package from which every resource was deleted is degenerate (the profile requires >=1 resource):
        # outside the property's "pipeline ... resulting package" scope
        if res and not Package(copy.deepcopy(st.desc)).valid:
            out.append(('invalid-package', '%s: descriptor is not a valid data package' % where))
    except Exception as e:
        out.append(('invalid-package', '%s: descriptor rejected: %s' % (where, e)))
    return out


# ------------------------------------------------------------------------------------------------
def state_diff(a, b):
    """Short description of the first difference between two States, or None."""
    if a.desc != b.desc:
        an, bn = a.names(), b.names()
        if an != bn:
            return 'descriptor: resources %r vs %r' % (an, bn)
        for ra, rb in zip(a.desc['resources'], b.desc['resources']):
            if ra != rb:
                fa = [f['name'] for f in ra.get('schema', {}).get('fields', [])]
                fb = [f['name'] for f in rb.get('schema', {}).get('fields', [])]
                if fa != fb:
                    return 'descriptor of %r: fields %r vs %r' % (ra.get('name'), fa, fb)
                return 'descriptor of %r differs' % ra.get('name')
        return 'package-level descriptor differs'
    if len(a.rows) != len(b.rows):
        return '%d vs %d row streams' % (len(a.rows), len(b.rows))
    for i, (x, y) in enumerate(zip(a.rows, b.rows)):
        ex, ey = enc_rows(x), enc_rows(y)
        if ex != ey:
            name = a.names()[i] if i < len(a.names()) else i
            if len(ex) != len(ey):
                return 'resource %r: %d vs %d rows' % (name, len(ex), len(ey))
            for j, (p, q) in enumerate(zip(ex, ey)):
                if p != q:
                    return 'resource %r row %d: %s vs %s' % (name, j, cj(p), cj(q))
    return None


def shape(symnames):
    """Abstract a path to its signature features: symbol names with user kinds kept."""
    return '+'.join(re.sub(r'^(user:rows_empty):\w+$', r'\1', n) for n in symnames)


def compositions(n):
    """All ways to cut positions 0..n-1 into consecutive groups."""
    for mask in range(1 << (n - 1)) if n > 0 else []:
        groups, cur = [], [0]
        for i in range(1, n):
            if mask >> (i - 1) & 1:
                groups.append(cur)
                cur = [i]
            else:
                cur.append(i)
        groups.append(cur)
        yield groups


# ------------------------------------------------------------------------------------------------
# C01: one path, all obligations
INITIALS = None


def initials():
    global INITIALS
    if INITIALS is None:
        INITIALS = initial_states()
    return INITIALS


def _run_record(steps, positions, via='datastream'):
    res, tree, env = execute(steps, positions, via)
    missing = sorted(env.expected_markers - env.markers)
    return {'res': res, 'tree': tree, 'log': sorted(cj(x) for x in env.log), 'missing': missing}


def stepwise(init, path, memo=None):
    """Apply the steps one at a time, each on the materialised output of the previous one."""
    state = init
    tree, log = {}, []
    legit = set()
    for i, sym in enumerate(path):
        key = (state.key(), sym, i + 1)
        r = memo.get(key) if memo is not None else None
        if r is None:
            r = _run_record([{'op': 'from_state', 'state': state}, SYMS[sym]], [0, i + 1])
            if memo is not None:
                memo[key] = r
                memo['#transitions'] = memo.get('#transitions', 0) + 1
        if r['res'][0] == 'exc':
            return {'kind': 'exc', 'at': i, 'exc': r['res'][1], 'missing': r['missing']}
        if sym in MUST_FAIL or (sym in MUST_FAIL_IF_ROWS and any(len(x) for x in state.rows)):
            return {'kind': 'swallowed', 'at': i}
        if r['missing']:
            if sym.startswith('user:row_') and not any(len(x) for x in state.rows):
                legit.add('u%d' % (i + 1))       # a row function legitimately never runs when no row reaches it
            elif sym.startswith('user:rows') and not state.rows:
                legit.add('u%d' % (i + 1))       # a rows function legitimately never runs when no resource is left
            else:
                return {'kind': 'skipped', 'at': i, 'missing': r['missing']}
        if sym in EMPTYING_LINKS and any(len(x) for x in r['res'][1].rows):
            return {'kind': 'emptying-broken', 'at': i, 'diff': 'rows per resource %r' % [len(x) for x in r['res'][1].rows]}
        if sym in IDENTITY_LINKS and state_diff(r['res'][1], state):
            return {'kind': 'identity-broken', 'at': i, 'diff': state_diff(r['res'][1], state)}
        state = r['res'][1]
        tree.update(r['tree'])
        log.extend(r['log'])
    return {'kind': 'ok', 'state': state, 'tree': tree, 'log': sorted(log), 'legit_missing': legit}


def lazy_steps(init, path):
    src = {'op': 'from_state', 'state': init}
    if any(sym in EMPTYING_LINKS or sym.startswith('user:package_eager') for sym in path):
        # (the same goes for a link that asks for every resource before reading any)
        # a user link that returns without reading its input breaks the drain discipline on purpose: over the shared
        # sequential cursor the *harness source* would then hand the unread rows to the next resource (an artefact of
        # the source, not of the library), so such paths run over independent per-resource iterators
        src['sequential'] = False
    return [src] + [SYMS[s] for s in path], list(range(len(path) + 1))


def check_path(inp, path, memo=None, variants=False):
    """Returns (violations[(oracle, what)], outcome, final stepwise state or None)."""
    init = initials()[inp]
    viol = []
    has_nonlink = any(s.startswith('nonlink:') for s in path)
    steps, positions = lazy_steps(init, path)
    lz = _run_record(steps, positions)
    if has_nonlink:
        if lz['res'][0] == 'ok':
            viol.append(('skipped-nonlink', 'Flow(%s) returned normally: the non-step link was silently skipped'
                         % ', '.join(path)))
        return viol, 'nonlink-rejected' if not viol else 'nonlink-skipped', None
    sw = stepwise(init, path, memo)
    if len(path) == 1 and path[0].startswith('user:') and sw['kind'] == 'exc':
        e = sw['exc']
        viol.append(('valid-link-rejected', 'Flow(%s) is rejected although the link is a well-formed %s: %s: %s'
                     % (path[0], path[0].split(':')[1] + ' callable', core.exc_sig(e), str(e)[:100].replace('\n', ' '))))
        return viol, 'differs', None
    if lz['res'][0] == 'ok' and sw['kind'] == 'ok':
        lz['missing'] = [m for m in lz['missing'] if m not in sw['legit_missing']]
        # a link that never asks for its input legitimately keeps the row-level links before it from ever being called
        last_emptying = max([i for i, sym in enumerate(path) if sym in EMPTYING_LINKS], default=-1)
        lazy_legit = {'u%d' % (i + 1) for i, sym in enumerate(path[:max(last_emptying, 0)])
                      if sym.startswith('user:row')}
        lz['missing'] = [m for m in lz['missing'] if m not in lazy_legit]
    if lz['res'][0] == 'ok' and lz['missing']:
        viol.append(('skipped-link', 'Flow(%s) returned normally but user link(s) %s never ran'
                     % (', '.join(path), lz['missing'])))
        return viol, 'skipped', None
    if sw['kind'] == 'identity-broken':
        viol.append(('identity-link', 'Flow(..., %s): a rows-function that passes every row on (after peeking at the first) '
                     'changed the stream: %s' % (path[sw['at']], sw['diff'])))
        return viol, 'differs', None
    if sw['kind'] == 'emptying-broken':
        viol.append(('emptying-link', 'Flow(..., %s): a rows-function that returns an empty sequence left rows in the stream: %s'
                     % (path[sw['at']], sw['diff'])))
        return viol, 'differs', None
    if sw['kind'] == 'swallowed':
        viol.append(('failure-swallowed', 'stepwise Flow(..., %s) returned normally although the link raises while its rows '
                     'are consumed' % path[sw['at']]))
        return viol, 'differs', None
    if sw['kind'] == 'skipped':
        viol.append(('skipped-link', 'stepwise Flow(..., %s) returned normally but the user link never ran'
                     % path[sw['at']]))
        return viol, 'skipped', None
    if sw['kind'] == 'exc':
        if lz['res'][0] != 'exc' and any(sym in EMPTYING_LINKS for sym in path[sw['at'] + 1:]):
            # the failing step is never asked for the row it fails on: a later link does not read its input
            return viol, 'rejected:stepwise-only(abandoned)', None
        if lz['res'][0] != 'exc':
            e = sw['exc']
            viol.append(('lazy-swallows', 'Flow(%s) returned normally although step %s raises %s (%s) on the materialised output '
                         'of the previous one' % (', '.join(path), path[sw['at']], core.exc_sig(e), str(e)[:100].replace('\n', ' '))))
            return viol, 'differs', None
        return viol, 'rejected:both', None
    if lz['res'][0] == 'exc':
        e = lz['res'][1]
        viol.append(('lazy-raises', 'Flow(%s) raises %s (%s) although every step succeeds on the materialised '
                     'output of the previous one' % (', '.join(path), core.exc_sig(e), str(e)[:100].replace('\n', ' '))))
        return viol, 'lazy-raises', None
    d = state_diff(lz['res'][1], sw['state'])
    late = False
    if d:
        a, b = lz['res'][1], sw['state']
        d2 = state_diff(State(strip_stats(a.desc), a.rows), State(strip_stats(b.desc), b.rows))
        if d2 is None:
            late = True
        else:
            viol.append(('lazy-vs-stepwise', 'Flow(%s): lazy vs stepwise: %s' % (', '.join(path), d2)))
    # a link that never asks for its input abandons the upstream steps: what they write / report then legitimately
    # depends on laziness (same family as the C05 finding about early-stopping user steps); only the stream is compared
    abandons = any(sym in EMPTYING_LINKS for sym in path)
    if abandons:
        lz = dict(lz, tree=sw['tree'], log=sw['log'])
    if lz['tree'] != sw['tree']:
        nl, ns = norm_tree(lz['tree']), norm_tree(sw['tree'])
        if nl == ns:
            late = True
        else:
            ks = sorted(k for k in set(nl) | set(ns) if nl.get(k) != ns.get(k))
            viol.append(('side-effects', 'Flow(%s): files written differ lazy vs stepwise: %s' % (', '.join(path), ks[:4])))
    if late:
        viol.append(('late-dump-stats', 'Flow(%s): the descriptor seen by (and written by) steps downstream of the '
                     'dumper lacks the bytes/hash/count_of_rows counters that the dumper\'s materialised output '
                     'carries (they are only known when the stream ends)' % ', '.join(path)))
    if lz['log'] != sw['log']:
        viol.append(('callbacks', 'Flow(%s): observer output differs lazy vs stepwise' % ', '.join(path)))
    hard = [v for v in viol if v[0] != 'late-dump-stats']
    if variants and not hard:
        viol.extend(check_variants(init, path, lz, sw))
    return viol, 'ok' if not viol else ('late-stats' if not hard else 'differs'), sw['state']


def _variants_for_source(init, path, lz, sw, base, syms, src):
    viol = []
    n = len(path)

    def cmp(label, steps, positions):
        r = _run_record(steps, positions)
        if r['res'][0] == 'exc':
            e = r['res'][1]
            viol.append((label, 'Flow(%s) %s raises %s' % (', '.join(path), label, core.exc_sig(e))))
            return
        d = state_diff(r['res'][1], base)
        if d:
            viol.append((label, 'Flow(%s) %s: %s' % (', '.join(path), label, d)))
        elif r['tree'] != lz['tree'] or r['log'] != lz['log']:
            viol.append((label, 'Flow(%s) %s: side effects differ' % (', '.join(path), label)))
        elif [m for m in r['missing'] if m not in sw['legit_missing']]:
            viol.append((label, 'Flow(%s) %s: user link skipped' % (', '.join(path), label)))

    # groupings into nested Flows
    for groups in compositions(n):
        if len(groups) == n and n > 1:
            pass
        steps, positions = [src], [0]
        for g in groups:
            steps.append({'op': 'flow', 'steps': [syms[i] for i in g], 'positions': [i + 1 for i in g]})
            positions.append(g[0] + 1)
        cmp('grouping', steps, positions)
    # everything (source included) in one nested flow
    cmp('grouping', [{'op': 'flow', 'steps': [src] + syms, 'positions': list(range(n + 1))}], [0])
    # always-true conditional around every contiguous segment
    for i in range(n):
        for j in range(i, n):
            steps = [src] + syms[:i] + [{'op': 'conditional_true', 'steps': syms[i:j + 1],
                                         'positions': list(range(i + 1, j + 2))}] + syms[j + 1:]
            positions = [0] + list(range(1, i + 1)) + [i + 1] + list(range(j + 2, n + 1))
            cmp('conditional', steps, positions)
    return viol


def check_variants(init, path, lz, sw):
    viol = []
    n = len(path)
    base = lz['res'][1]
    syms = [SYMS[s] for s in path]
    # both kinds of source the library itself has: one shared sequential cursor (unstream-like) and independent
    # per-resource iterators (iterable-like); a grouping/wrapping must not matter for either
    for seq in (True, False):
        viol.extend(_variants_for_source(init, path, lz, sw, base, syms, {'op': 'from_state', 'state': init, 'sequential': seq}))
        if viol:
            return viol
    src = {'op': 'from_state', 'state': init}

    # the same Flow object asked again (datastream, then results, then process): nothing may be remembered between calls.
    # Only for paths whose links are re-iterable and do not edit their own arguments (one-shot generators excluded).
    if not any(s in ('gen150', 'iterable') or s.startswith('user:') for s in path):
        viol.extend(check_reuse(init, path, lz))
    # entry points
    steps, positions = lazy_steps(init, path)
    rr = _run_record(steps, positions, via='results')
    ref = _run_record([{'op': 'from_state', 'state': sw['state']}], [0], via='results')
    if rr['res'][0] != ref['res'][0]:
        viol.append(('results', 'Flow(%s).results() %s but results() of the stepwise state %s' %
                     (', '.join(path), rr['res'][0], ref['res'][0])))
    elif rr['res'][0] == 'ok':
        a, b = rr['res'][1], ref['res'][1]
        d = state_diff(State(strip_stats(a.desc), a.rows), State(strip_stats(b.desc), b.rows))
        if d:
            viol.append(('results', 'Flow(%s).results() differs from results() of the stepwise state: %s'
                         % (', '.join(path), d)))
        elif rr['tree'] != lz['tree']:
            viol.append(('results', 'Flow(%s).results(): side effects differ from datastream()' % ', '.join(path)))
        else:
            # the rows themselves, with their Python types: results() validates at the end, which must not change anything in
            # a stream whose values are already what its descriptor declares (every input and every symbol here delivers such
            # values). Packages with duplicate resource names are skipped: results() pairs rows and schemas by name (C02 finding).
            names = base.names()
            if len(set(names)) == len(names) and [enc_rows(x) for x in base.rows] != [enc_rows(x) for x in a.rows]:
                k = next(i for i, (x, y) in enumerate(zip(base.rows, a.rows)) if enc_rows(x) != enc_rows(y))
                viol.append(('results-vs-datastream', 'Flow(%s): datastream() delivers %r for resource %r, results() %r'
                             % (', '.join(path), base.rows[k][:2], names[k], a.rows[k][:2])))
    pr = _run_record(steps, positions, via='process')
    if pr['res'][0] != rr['res'][0]:
        viol.append(('process', 'Flow(%s).process() %s but results() %s' % (', '.join(path), pr['res'][0], rr['res'][0])))
    elif pr['res'][0] == 'ok':
        if pr['res'][1].desc != rr['res'][1].desc:
            viol.append(('process', 'Flow(%s).process() descriptor differs from results()' % ', '.join(path)))
        elif pr['res'][2] != rr['res'][2]:
            viol.append(('process', 'Flow(%s).process() stats differ from results()' % ', '.join(path)))
        elif pr['tree'] != rr['tree'] or pr['log'] != rr['log'] or \
                [m for m in pr['missing'] if m not in sw['legit_missing']]:
            viol.append(('process', 'Flow(%s).process(): side effects differ from results()' % ', '.join(path)))
    return viol


def check_reuse(init, path, lz):
    viol = []
    with core.scratch_dir() as d:
        env = Env(d)
        env.expected_markers = set()
        steps, positions = lazy_steps(init, path)
        try:
            links = []
            for s, p in zip(steps, positions):
                env.pos = p
                links.append(build_link(s, env))
            flow = core.Flow(*links)
            with core.fake_mp():
                first = core.materialise(flow)
                results, dp, _ = flow.results(on_error=None)
                second = State(copy.deepcopy(dp.descriptor), results)
                third = core.materialise(flow)
        except core.CaseTimeout:
            raise
        except Exception as e:
            return [('reuse', 'Flow(%s): asking the same Flow object again raises %s: %s' % (', '.join(path), core.exc_sig(e), str(e)[:80]))]
    base = lz['res'][1]
    for label, st in (('first datastream()', first), ('then results()', second), ('then datastream() again', third)):
        a, b = st, base
        dd = state_diff(State(strip_stats(a.desc), a.rows), State(strip_stats(b.desc), b.rows))
        if dd:
            viol.append(('reuse', 'Flow(%s): the same Flow object, %s: %s' % (', '.join(path), label, dd)))
            break
    return viol


def shrink_path(inp, path, oracle, checker):
    """Greedy: drop steps while the same oracle keeps failing."""
    cur = list(path)
    changed = True
    while changed and len(cur) > 1:
        changed = False
        for i in range(len(cur)):
            cand = cur[:i] + cur[i + 1:]
            v = checker(inp, cand)
            if any(o == oracle for o, _ in v):
                cur = cand
                changed = True
                break
    return cur


def reachable_states(inputs, alphabet, depth, cap):
    """BFS with state merging over stepwise transitions only: distinct packages reachable within `depth` steps."""
    seen = {}
    frontier = []
    for name in inputs:
        st = initials()[name]
        seen[st.key()] = (st, 0)
        frontier.append(st)
    transitions = 0
    for dpt in range(1, depth + 1):
        nxt = []
        for st in frontier:
            for sym in alphabet:
                r = _run_record([{'op': 'from_state', 'state': st}, SYMS[sym]], [0, 1])
                transitions += 1
                if r['res'][0] == 'ok' and not r['missing']:
                    s2 = r['res'][1]
                    if s2.key() not in seen:
                        if len(seen) >= cap:
                            return seen, transitions, True
                        seen[s2.key()] = (s2, dpt)
                        nxt.append(s2)
        frontier = nxt
    return seen, transitions, False


def explore_c01(task):
    """task: {'input','prefix':[...],'alphabet':[...],'depth':int,'variants':bool}. Explores every extension of
    prefix to total length depth (prefix itself is checked by the task that owns it, except when own=True)."""
    inp, prefix, alphabet, depth = task['input'], task['prefix'], task['alphabet'], task['depth']
    if 'input_state' in task:
        initials()[inp] = State.from_json(task['input_state'])
    variants = task.get('variants', False)
    memo = {}
    out = {'n': 0, 'keys': [], 'outcomes': {}, 'viol': [], 'states': set(), 'transitions': 0, 'traces': 0}

    def visit(path):
        viol, outcome, st = check_path(inp, path, memo, variants)
        out['n'] += 1
        out['traces'] += 1
        out['outcomes'][outcome] = out['outcomes'].get(outcome, 0) + 1
        if st is not None:
            out['states'].add(st.key())
            if st.key() != initials()[inp].key():
                out['keys'].append(h([inp, path]))
        for oracle, what in viol:
            mp = shrink_path(inp, path, oracle, lambda i, p: check_path(i, p, None, variants)[0])
            what2 = [w for o, w in check_path(inp, mp, None, variants)[0] if o == oracle]
            sg = first_dumper(mp) if oracle == 'late-dump-stats' else shape(mp)
            out['viol'].append(('%s/%s' % (oracle, sg), what2[0] if what2 else what,
                                {'input': inp, 'path': mp, 'variants': variants, 'oracle': oracle}))
        return st if not [v for v in viol if v[0] != 'late-dump-stats'] else None

    def rec(path, own):
        st = visit(path) if own else stepwise_state(path)
        if st is None or len(path) >= depth:
            return
        for sym in alphabet:
            rec(path + [sym], True)

    def stepwise_state(path):
        if not path:
            return initials()[inp]
        sw = stepwise(initials()[inp], path, memo)
        return sw.get('state') if sw['kind'] == 'ok' else None

    ok = True
    for i in range(1, len(prefix)):       # proper prefixes are owned (and counted) by other tasks
        v, _, st = check_path(inp, list(prefix[:i]), memo, variants)
        if [x for x in v if x[0] != 'late-dump-stats'] or st is None:
            ok = False
            break
    if ok:
        rec(list(prefix), True)
    out['transitions'] = memo.get('#transitions', 0)
    out['states'] = sorted(out['states'])
    out['sample'] = {'input': inp, 'prefix': prefix, 'depth': depth}
    return out
