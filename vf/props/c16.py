"""C16 - resource-level restructuring conserves rows (E2, reference model of positions and contents)."""
import copy
import itertools

from .. import core, e2
from ..core import mkstate, cj, enc, enc_rows

LEVEL = 'exploration'
SCHEMAS = {'ab': [('a', 'integer'), ('b', 'string')], 'ac': [('a', 'integer'), ('c', 'string')], 'd': [('d', 'string')]}


def res_rows(i, kind, n):
    rows = []
    for j in range(n):
        if kind == 'ab':
            rows.append({'a': 10 * i + j, 'b': 'b%d%d' % (i, j) if j % 2 == 0 else None})
        elif kind == 'ac':
            rows.append({'a': 10 * i + j if j != 1 else None, 'c': 'c%d%d' % (i, j)})
        else:
            rows.append({'d': 'd%d%d' % (i, j)})
    return rows


def package(spec):
    """spec: list of [kind, size]"""
    return mkstate([('r%d' % i, SCHEMAS[k], res_rows(i, k, n)) for i, (k, n) in enumerate(spec)])


TWICE = [False]


def run_step(st, *steps):
    try:
        return 'ok', core.materialise(core.from_state(st), *steps, via='results_raw', twice=TWICE[0])
    except core.CaseTimeout:
        raise
    except Exception as e:
        return 'exc', e


def compare(label, proc, out, exp_names, exp_rows, exp_fields=None):
    viol = []
    names = out.names()
    if names != exp_names:
        return [('positions/%s' % proc, '%s: resources %r, specified %r' % (label, names, exp_names))]
    for i, n in enumerate(names):
        g, e = out.rows[i] if i < len(out.rows) else None, exp_rows[i]
        if g is None:
            viol.append(('no-stream/%s' % proc, '%s: resource %r has no row stream' % (label, n)))
            break
        if enc_rows(g) != enc_rows(e):
            if len(g) < len(e):
                oracle = 'row-lost'
            elif len(g) > len(e):
                oracle = 'row-invented'
            else:
                oracle = 'rows'
            viol.append(('%s/%s' % (oracle, proc), '%s: resource %r emits %r, specified %r' % (label, n, g[:6], e[:6])))
            break
        if exp_fields and exp_fields[i] is not None:
            gf = [f['name'] for f in out.desc['resources'][i]['schema']['fields']]
            if gf != exp_fields[i]:
                viol.append(('schema/%s' % proc, '%s: resource %r declares %r, specified %r' % (label, n, gf, exp_fields[i])))
                break
    if len(out.rows) != len(names):
        viol.append(('streams/%s' % proc, '%s: %d streams for %d resources' % (label, len(out.rows), len(names))))
    return viol


def check(case):
    TWICE[0] = bool(case.get('rerun'))
    try:
        v, o, n = globals()['check_' + case['proc']](case)
    finally:
        TWICE[0] = False
    if case.get('rerun'):
        v = [('rerun-' + sg, 'second execution of the same Flow object: ' + what) for sg, what in v]
    return v, o, n


def check_concat(case):
    spec, lo, hi, mapping = case['pkg'], case['lo'], case['hi'], case['mapping']
    st = package(spec)
    names = st.names()
    sel = names[lo:hi + 1]
    fields = {'merge': {'a': [], 'x': ['b', 'c']}, 'a-only': {'a': []},
              # the target 'a' lists another source column AND is itself a column of the selected resources
              'self+other': {'a': ['d'], 'b': ['c']}}[mapping]
    label = 'concatenate(%r, resources=%r) on package %r' % (fields, sel, spec)
    fm = {}
    for t, srcs in fields.items():
        fm[t] = t
        for s in srcs:
            fm[s] = t
    exp_cc, empty = [], False
    for i in range(lo, hi + 1):
        for r in st.rows[i]:
            vals = {fm[k]: v for k, v in r.items() if k in fm and v is not None}
            if not vals:
                empty = True
            row = {t: None for t in fields}
            row.update(vals)
            exp_cc.append(row)
    # the target may re-use the name of one of the resources it replaces
    tname = {'first': sel[0], 'last': sel[-1]}.get(case.get('target'), 'cc')
    if tname != 'cc':
        label += ' into a target named %r' % tname
    kind, out = run_step(st, core.dataflows.concatenate(copy.deepcopy(fields), {'name': tname, 'path': tname + '.csv'} if tname != 'cc' else {'name': 'cc'},
                                                        resources=list(sel)))
    if kind == 'exc':
        if empty:
            return [], 'rejected-empty-row', False
        return [('raises/concatenate', '%s raises %s: %s' % (label, core.exc_sig(out), str(out)[:100]))], 'violated', True
    if empty:
        return [('empty-row-accepted/concatenate', '%s: a row without any mapped non-null value was accepted' % label)], 'violated', True
    exp_names = names[:lo] + [tname] + names[hi + 1:]
    exp_rows = st.rows[:lo] + [exp_cc] + st.rows[hi + 1:]
    exp_fields = [None] * lo + [list(fields)] + [None] * (len(names) - hi - 1)
    v = compare(label, 'concatenate', out, exp_names, exp_rows, exp_fields)
    for i, n in enumerate(exp_names):
        if i != lo and not v and out.desc['resources'][i] != st.desc['resources'][names.index(n)]:
            v.append(('descriptor/concatenate', '%s: descriptor of untouched %r changed' % (label, n)))
    return v, 'ok' if not v else 'violated', len(exp_cc) > 0


ODD_NAMES = ['sales.2020', 'sales_2020', 'report (1)', 'a+b']


def check_duplicate(case):
    spec, idx, to_end, bs = case['pkg'], case['idx'], case['to_end'], case['batch']
    st = package(spec)
    if case.get('odd_names'):
        # resource names are data, not patterns: names holding regex metacharacters, and look-alike neighbours
        for r, nm in zip(st.desc['resources'], ODD_NAMES):
            r['name'] = nm
    names = st.names()
    src = names[idx]
    label = 'duplicate(%r, duplicate_to_end=%s, batch_size=%d) on package %r' % (src, to_end, bs, spec)
    if case.get('odd_names'):
        label += ' whose resources are named %r' % names
    dup_args = () if case.get('default_source') else (src,)
    kind, out = run_step(st, core.dataflows.duplicate(*dup_args, duplicate_to_end=to_end, batch_size=bs))
    if kind == 'exc':
        return [('raises/duplicate', '%s raises %s: %s' % (label, core.exc_sig(out), str(out)[:100]))], 'violated', True
    if to_end:
        exp_names = names + [src + '_copy']
        exp_rows = st.rows + [st.rows[idx]]
    else:
        exp_names = names[:idx + 1] + [src + '_copy'] + names[idx + 1:]
        exp_rows = st.rows[:idx + 1] + [st.rows[idx]] + st.rows[idx + 1:]
    v = compare(label, 'duplicate', out, exp_names, exp_rows)
    if not v:
        ci = exp_names.index(src + '_copy')
        if out.desc['resources'][ci]['schema'] != st.desc['resources'][idx]['schema']:
            v.append(('schema/duplicate', '%s: the copy\'s schema differs from the original\'s' % label))
    return v, 'ok' if not v else 'violated', len(st.rows[idx]) > 0


def check_dup_then(case):
    """duplicate, then a schema-editing step restricted to ONE of the two: the other must not change."""
    spec, idx, to_end, which = case['pkg'], case['idx'], case['to_end'], case['which']
    st = package(spec)
    names = st.names()
    src = names[idx]
    target = src + '_copy' if which == 'copy' else src
    first = SCHEMAS[spec[idx][0]][0][0]
    label = 'duplicate(%r, duplicate_to_end=%s) then delete_fields([%r], resources=%r) on package %r' % (src, to_end, first, target, spec)
    kind, out = run_step(st, core.dataflows.duplicate(src, duplicate_to_end=to_end),
                         core.dataflows.delete_fields([first], resources=target, regex=False))
    if kind == 'exc':
        return [('raises/duplicate-then', '%s raises %s: %s' % (label, core.exc_sig(out), str(out)[:100]))], 'violated', True
    if to_end:
        exp_names = names + [src + '_copy']
        exp_rows = st.rows + [st.rows[idx]]
    else:
        exp_names = names[:idx + 1] + [src + '_copy'] + names[idx + 1:]
        exp_rows = st.rows[:idx + 1] + [st.rows[idx]] + st.rows[idx + 1:]
    exp_rows = [list(r) for r in exp_rows]
    ti = exp_names.index(target)
    exp_rows[ti] = [{k: v for k, v in r.items() if k != first} for r in exp_rows[ti]]
    exp_fields = []
    for n in exp_names:
        base = n[:-5] if n.endswith('_copy') else n
        fl = [f[0] for f in SCHEMAS[spec[names.index(base)][0]]]
        exp_fields.append([f for f in fl if not (n == target and f == first)])
    v = compare(label, 'duplicate-then', out, exp_names, exp_rows, exp_fields)
    return v, 'ok' if not v else 'violated', True


def check_dup_nested(case):
    to_end, bs = case['to_end'], case['batch']
    rows = [{'a': i, 'tags': ['t%d' % i], 'meta': {'k': [i]}} for i in range(case['n'])]
    st = mkstate([('r0', [('a', 'integer'), ('tags', 'array'), ('meta', 'object')], rows), ('r1', SCHEMAS['d'], [{'d': 'x'}])])

    def edit_nested(package):
        yield package.pkg
        for res in package:
            if res.res.name == 'r0':
                def it(res=res):
                    for r in res:
                        r['tags'].append('edited')
                        r['meta']['k'].append(-1)
                        yield r
                yield it()
            else:
                yield res
    label = 'duplicate(r0, duplicate_to_end=%s, batch_size=%d) of %d rows with array/object cells, then a step editing those cells of r0 in place' % (to_end, bs, case['n'])
    kind, out = run_step(st, core.dataflows.duplicate('r0', duplicate_to_end=to_end, batch_size=bs), edit_nested)
    if kind == 'exc':
        return [('raises/duplicate-nested', '%s raises %s: %s' % (label, core.exc_sig(out), str(out)[:100]))], 'violated', True
    ci = out.names().index('r0_copy')
    v = []
    if enc_rows(out.rows[ci]) != enc_rows(rows):
        v.append(('copy-not-exact/duplicate-nested', '%s: the copy holds %r' % (label, out.rows[ci][:2])))
    return v, 'ok' if not v else 'violated', True


def check_delete(case):
    spec, sel = case['pkg'], case['sel']
    st = package(spec)
    names = st.names()
    import re
    if isinstance(sel, int):
        try:
            gone = [names[sel]]
        except IndexError:
            gone = None
    elif isinstance(sel, list):
        gone = [n for n in names if n in sel]
    else:
        gone = [n for n in names if re.fullmatch(sel, n)]
    label = 'delete_resource(%r) on package %r' % (sel, spec)
    kind, out = run_step(st, core.dataflows.delete_resource(copy.deepcopy(sel)))
    if gone is None:
        return [], 'rejected-index', False
    if kind == 'exc':
        return [('raises/delete_resource', '%s raises %s: %s' % (label, core.exc_sig(out), str(out)[:100]))], 'violated', True
    keep = [i for i, n in enumerate(names) if n not in gone]
    v = compare(label, 'delete_resource', out, [names[i] for i in keep], [st.rows[i] for i in keep])
    if not v:
        for j, i in enumerate(keep):
            if out.desc['resources'][j] != st.desc['resources'][i]:
                v.append(('descriptor/delete_resource', '%s: descriptor of kept %r changed' % (label, names[i])))
                break
    return v, 'ok' if not v else 'violated', len(gone) > 0


def check_append(case):
    spec, how = case['pkg'], case['how']
    st = package(spec)
    if case.get('shifted'):
        # names an all-default pipeline is left with after its first resources were deleted: res_<k+1>, res_<k+2>, ...
        # (every default name the appended resource would try first is taken)
        for i, r in enumerate(st.desc['resources']):
            r['name'] = 'res_%d' % (len(spec) + 1 + i)
    names = st.names()
    new_rows = [{'n': 1, 'm': 'x'}, {'n': 2, 'm': None}]
    cleanup = []
    label = 'appending via %s after package %r%s' % (how, spec, ' named %r' % names if case.get('shifted') else '')
    if how == 'iterable':
        step = [copy.deepcopy(r) for r in new_rows]
        newnames = None
    elif how == 'generator':
        step = (copy.deepcopy(r) for r in new_rows)
        newnames = None
    elif how == 'load':
        ns = mkstate([('L1', [('n', 'integer'), ('m', 'string')], new_rows), ('L2', [('n', 'integer')], [])])
        step = core.dataflows.load((copy.deepcopy(ns.desc), [iter(copy.deepcopy(r)) for r in ns.rows]))
        newnames = ['L1', 'L2']
    elif how in ('load-int0', 'load-int1'):
        # an integer selector is an index into the package being LOADED, whatever the flow already holds
        ns = mkstate([('L1', [('n', 'integer'), ('m', 'string')], new_rows), ('L2', [('n', 'integer')], [{'n': 5}])])
        idx = int(how[-1])
        step = core.dataflows.load((copy.deepcopy(ns.desc), [iter(copy.deepcopy(r)) for r in ns.rows]), resources=idx)
        newnames = [['L1', 'L2'][idx]]
    elif how == 'load-dp':
        # a data package on disk with three resources, each with rows of its own
        import tempfile
        ns = mkstate([('L1', [('n', 'integer'), ('m', 'string')], new_rows), ('L2', [('n', 'integer')], [{'n': 5}]), ('L3', [('n', 'integer')], [{'n': 7}, {'n': 8}])])
        dpdir = tempfile.mkdtemp(dir=core.scratch_root(), prefix='c16dp')
        cleanup.append(dpdir)
        core.Flow(core.from_state(ns), core.dataflows.dump_to_path(dpdir)).process()
        step = core.dataflows.load(dpdir + '/datapackage.json')
        newnames = ['L1', 'L2', 'L3']
    elif how == 'load-live':
        # the (descriptor, resources) pair is another flow's live stream: its resources must be taken one at a time, in order
        # (that flow ends in a concatenate, whose sources are only taken from the stream while its target is being read)
        ns = mkstate([('La', [('n', 'integer'), ('m', 'string')], new_rows[:1]), ('Lb', [('n', 'integer'), ('m', 'string')], new_rows[1:]),
                      ('L2', [('n', 'integer')], [{'n': 5}, {'n': 6}])])
        ds = core.Flow(core.from_state(ns, sequential=True),
                       core.dataflows.concatenate({'n': [], 'm': []}, {'name': 'L1', 'path': 'L1.csv'}, resources=['La', 'Lb'])).datastream()
        step = core.dataflows.load((copy.deepcopy(ds.dp.descriptor), ds.res_iter))
        newnames = ['L1', 'L2']
    else:
        step = core.dataflows.sources([copy.deepcopy(r) for r in new_rows], [{'q': 1}])
        newnames = None
    kind, out = run_step(st, step)
    for c_ in cleanup:
        import shutil
        shutil.rmtree(c_, ignore_errors=True)
    if kind == 'exc':
        return [('raises/append-%s' % how, '%s raises %s: %s' % (label, core.exc_sig(out), str(out)[:100]))], 'violated', True
    got = out.names()
    k = len(names)
    v = []
    if len(set(got)) != len(got):
        v.append(('appended-name-collides/append-%s' % how, '%s: resources are now named %r' % (label, got)))
    elif got[:k] != names:
        v.append(('positions/append-%s' % how, '%s: existing resources became %r' % (label, got)))
    else:
        for i in range(k):
            if enc_rows(out.rows[i]) != enc_rows(st.rows[i]) or out.desc['resources'][i] != st.desc['resources'][i]:
                v.append(('existing-changed/append-%s' % how, '%s: existing resource %r changed' % (label, names[i])))
                break
        exp_new = {'iterable': [new_rows], 'generator': [new_rows], 'load': [new_rows, []], 'sources': [new_rows, [{'q': 1}]],
                   'load-live': [new_rows, [{'n': 5}, {'n': 6}]], 'load-dp': [new_rows, [{'n': 5}], [{'n': 7}, {'n': 8}]], 'load-int0': [new_rows], 'load-int1': [[{'n': 5}]]}[how]
        if len(got) - k != len(exp_new):
            v.append(('appended-count/append-%s' % how, '%s: %d resources appended, expected %d' % (label, len(got) - k, len(exp_new))))
        elif [enc_rows(r) for r in out.rows[k:]] != [enc_rows(r) for r in exp_new]:
            v.append(('appended-rows/append-%s' % how, '%s: appended rows %r' % (label, out.rows[k:])))
        elif newnames and got[k:] != newnames:
            v.append(('appended-names/append-%s' % how, '%s: appended names %r' % (label, got[k:])))
    return v, 'ok' if not v else 'violated', True


def big_cases():
    out = []
    for bs in (1, 2, 1000):
        for to_end in (False, True):
            out.append({'to_end': to_end, 'batch': bs})
    out.append({'to_end': False, 'batch': 1000, 'n': 65600})       # more rows than four hexadecimal digits can number
    return out


def big_case(c):
    n = c.get('n', 2500)
    rows = [{'a': i, 'b': 's%d' % i} for i in range(n)]
    st = mkstate([('r0', SCHEMAS['ab'], rows), ('r1', SCHEMAS['d'], [{'d': 'x'}])])
    kind, out = run_step(st, core.dataflows.duplicate('r0', duplicate_to_end=c['to_end'], batch_size=c['batch']))
    ok = kind == 'ok' and len(out.rows) == 3
    if ok:
        ci = out.names().index('r0_copy')
        ok = enc_rows(out.rows[ci]) == enc_rows(rows) and enc_rows(out.rows[0]) == enc_rows(rows)
    return {'n': 1, 'key': core.h(['big', c]), 'outcome': 'big-ok' if ok else 'big-violated',
            'viol': [] if ok else [('large/duplicate', 'duplicate of a %d-row resource (batch_size=%d, to_end=%s): copy or original '
                                    'differs' % (n, c['batch'], c['to_end']), {'big': c})]}


def cases(tier):
    out = []
    kinds = [(k, n) for k in SCHEMAS for n in (0, 1, 2)]
    maxn = 3 if tier == 'quick' else 4
    for n in range(1, maxn + 1):
        pkgs = itertools.product(kinds, repeat=n)
        for p in pkgs:
            spec = [list(x) for x in p]
            if n == 4 and len({x[0] for x in spec}) < 2:
                continue
            for lo in range(n):
                for hi in range(lo, n):
                    for mp in ('merge', 'a-only', 'self+other'):
                        if n <= 3 or mp == 'merge':
                            out.append({'proc': 'concat', 'pkg': spec, 'lo': lo, 'hi': hi, 'mapping': mp})
                        if n <= 2 and mp != 'a-only':
                            for tg in ('first', 'last'):
                                out.append({'proc': 'concat', 'pkg': spec, 'lo': lo, 'hi': hi, 'mapping': mp, 'target': tg})
            for idx in range(n):
                for to_end in (False, True):
                    out.append({'proc': 'duplicate', 'pkg': spec, 'idx': idx, 'to_end': to_end, 'batch': 1000 if (idx + n) % 3 else 1 + (idx % 2)})
            if n in (2, 4) or (n == 3 and tier == 'thorough'):
                for idx in range(n):
                    out.append({'proc': 'duplicate', 'pkg': spec, 'idx': idx, 'to_end': bool(idx % 2), 'batch': 1000, 'odd_names': True})
                out.append({'proc': 'duplicate', 'pkg': spec, 'idx': 0, 'to_end': False, 'batch': 1000, 'odd_names': True, 'default_source': True})
            if n <= 2 or tier == 'thorough':
                for idx in range(n):
                    for to_end in (False, True):
                        for which in ('copy', 'original'):
                            out.append({'proc': 'dup_then', 'pkg': spec, 'idx': idx, 'to_end': to_end, 'which': which})
            if n <= 2:
                # the same step objects executed a second time
                for lo in range(n):
                    for hi in range(lo, n):
                        out.append({'proc': 'concat', 'pkg': spec, 'lo': lo, 'hi': hi, 'mapping': 'merge', 'rerun': True})
                for idx in range(n):
                    out.append({'proc': 'duplicate', 'pkg': spec, 'idx': idx, 'to_end': False, 'batch': 1000, 'rerun': True})
                out.append({'proc': 'delete', 'pkg': spec, 'sel': 'r0', 'rerun': True})
            sels = ['r0', ['r0', 'r%d' % (n - 1)], n - 1, -1, 'r[01]', [], 'r.*']
            for sel in sels:
                out.append({'proc': 'delete', 'pkg': spec, 'sel': sel})
            if n <= 2 or tier == 'thorough':
                for how in ('iterable', 'generator', 'load', 'sources', 'load-live', 'load-int0', 'load-int1', 'load-dp'):
                    out.append({'proc': 'append', 'pkg': spec, 'how': how})
                for how in ('iterable', 'generator'):
                    out.append({'proc': 'append', 'pkg': spec, 'how': how, 'shifted': True})
    return out


def nested_cases():
    return [{'proc': 'dup_nested', 'to_end': te, 'batch': bs, 'n': n} for te in (False, True) for bs in (1, 2, 1000) for n in (1, 3, 1001)]


def run(run):
    cs = cases(run.tier) + nested_cases()
    e2.run_cases(run, __name__, cs, batch=200)
    for res in run.map(big_case, big_cases(), chunksize=1, limit=900):
        run.absorb(res)
    run.rule = ('every package of 1..%d resources over schemas {(a,b),(a,c),(d)} x sizes {0,1,2} (rows with nulls): concatenate '
                'with every consecutive selection x 2 field mappings; duplicate of each resource x after/at-end x batch sizes; '
                'delete_resource with 7 selector forms; appending via list, generator, load((descriptor, iterators)) and sources; '
                'plus a 2500-row duplicate under batch sizes 1/2/1000. distinct by (package, operation)' % (3 if run.tier == 'quick' else 4))
    run.explanation = 'reference model of resource positions and row contents; untouched resources must keep descriptor and rows; row-lost / row-invented classified'


def replay(w):
    if 'big' in w:
        return [(s, what, w) for s, what, _ in big_case(w['big'])['viol']]
    v, _, _ = check(w)
    return [(s, what, w) for s, what in v]
