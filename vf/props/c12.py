"""C12 - sort_rows emits a stable, correctly ordered permutation (E2)."""
import copy
import decimal
import itertools
from fractions import Fraction

import kvfile

from .. import core, e2
from ..core import mkstate, cj, enc, enc_rows, dec

LEVEL = 'exploration'
D = decimal.Decimal
NUMS = [-2, -1.5, -1.0000000000000002, -1.0, D('-1E-400'), 0, 1, 1.5, 10, 2 ** 24, 2 ** 24 + 1, D('2.5'), 1e10, -1e-3, 2 ** 53, 2 ** 53 + 1, -1e300, -1e200, 1e300, 5e-324]
TEXTS = ['', 'a', 'a0', 'ab', 'ax', 'b', 'B', 'é', '😀']


def frac(v):
    return Fraction(v) if not isinstance(v, float) else Fraction(D(repr(v)))


def model_key(kind, keyform, row):
    if keyform == 'callable':
        return (str(row['f']),)
    if kind == 'num':
        k = (frac(row['f']),)
    else:
        k = (row['f'],)
    if keyform == 'list2':
        k = k + (frac(row['g']),)
    if keyform == 'format2':
        k = ('{:03d}'.format(row['g']),) + k      # a field with a format spec compares as its formatted text
    return k


def build_key(keyform):
    if keyform == 'format':
        return '{f}'
    if keyform == 'list1':
        return ['f']
    if keyform == 'list2':
        return ['f', 'g']
    if keyform == 'format2':
        return '{g:03d}{f}'
    if keyform == 'callable':
        return lambda row: str(row['f'])
    raise AssertionError(keyform)


class SmallCache(kvfile.KVFile):
    def __init__(self, *a, **k):
        k['size'] = 2
        super().__init__(*a, **k)


def run_sort_both(kind, vals, keyform, reverse, batch_size, text_last=False):
    """resources=None: the first resource's key field holds text, the second's the given values (text_last: the other
    way round - the resource whose key field is text comes after the one under test)."""
    rows = [{'f': v, 'g': 1 if keyform == 'format2' else (len(vals) - i) % 2, 'id': i} for i, v in enumerate(vals)]
    first = [{'f': t, 'g': 1, 'id': 100 + i} for i, t in enumerate(['b', 'a', 'c'])]
    res = [('first', [('f', 'string'), ('g', 'integer'), ('id', 'integer')], first),
           ('t', [('f', 'number' if kind == 'num' else 'string'), ('g', 'integer'), ('id', 'integer')], rows)]
    if text_last:
        res.reverse()
    st = mkstate(res)
    out = core.materialise(core.from_state(st), core.dataflows.sort_rows(build_key(keyform), resources=None, reverse=reverse,
                                                                      batch_size=batch_size))
    if text_last:
        out = core.State(out.desc, [out.rows[1], out.rows[0]])
    return rows, first, out


def run_sort(kind, vals, keyform, reverse, batch_size, small_cache):
    rows = [{'f': v, 'g': 1 if keyform == 'format2' else (len(vals) - i) % 2, 'id': i} for i, v in enumerate(vals)]
    st = mkstate([('t', [('f', 'number' if kind == 'num' else 'string'), ('g', 'integer'), ('id', 'integer')], rows),
                  ('other', [('f', 'string')], [{'f': 'z'}, {'f': 'a'}])])
    m = core.mod('dataflows.processors.sort_rows')
    old = m.KVFile
    if small_cache:
        m.KVFile = SmallCache
    try:
        out = core.materialise(core.from_state(st),
                               core.dataflows.sort_rows(build_key(keyform), resources='t', reverse=reverse,
                                                        batch_size=batch_size))
    finally:
        m.KVFile = old
    return rows, out


def classify(kind, x, y):
    """x was emitted before y although the model orders y first."""
    if kind == 'text':
        a, b = (x, y) if len(x) <= len(y) else (y, x)
        if b.startswith(a) and len(b) > len(a):
            # the stored key is <text><8 hex digits of the row number>: a continuation character up to 'f' can collide with
            # the digits of the shorter key's row number (the recorded finding); anything above cannot
            return 'key-prefix-of-another' if b[len(a)] <= 'f' else 'key-prefix-of-another/continued-above-hex-digits'
        return 'text-other'
    if float(x) == float(y) and frac(x) != frac(y):
        return 'number-equal-as-double'
    return 'number-other'


def check(case):
    kind, keyform, reverse, bs, small = case['kind'], case['key'], case['reverse'], case['batch'], case['small']
    vals = [dec(v) for v in case['vals']]
    label = 'sort_rows(key=%s, reverse=%s, batch_size=%d%s%s) on f=%r' % (keyform, reverse, bs, ', cache=2' if small else '', (', resources=None over this resource and a text-keyed one after it' if case.get('both') == 'text-last' else ', resources=None over a text-keyed and this resource') if case.get('both') else '', vals)
    try:
        if case.get('both'):
            rows, first, out = run_sort_both(kind, vals, keyform, reverse, bs, text_last=case['both'] == 'text-last')
            asc1 = sorted(first, key=lambda r: (model_key('text', keyform, r), r['id']))
            exp1 = list(reversed(asc1)) if reverse else asc1
            if [r['id'] for r in out.rows[0]] != [r['id'] for r in exp1]:
                return [('order/first-of-two-resources', '%s: the first resource came out as %r' % (label, [r['f'] for r in out.rows[0]]))], 'violated', True
            out = core.State(out.desc, [out.rows[1], [{'f': 'z'}, {'f': 'a'}]])
        else:
            rows, out = run_sort(kind, vals, keyform, reverse, bs, small)
    except core.CaseTimeout:
        raise
    except Exception as e:
        return [('raises/%s' % kind, '%s raises %s: %s' % (label, core.exc_sig(e), str(e)[:100]))], 'raises', True
    got = out.rows[0]
    viol = []
    if sorted(cj(enc(r)) for r in got) != sorted(cj(enc(r)) for r in rows):
        viol.append(('multiset/%s' % kind, '%s: output is not a permutation of the input: %r' % (label, got)))
        return viol, 'violated', True
    if enc_rows(out.rows[1]) != enc_rows([{'f': 'z'}, {'f': 'a'}]):
        viol.append(('other-resource', '%s: the unselected resource changed' % label))
    asc = sorted(rows, key=lambda r: (model_key(kind, keyform, r), r['id']))
    exp = list(reversed(asc)) if reverse else asc
    if [r['id'] for r in got] != [r['id'] for r in exp]:
        # find an adjacent inversion w.r.t. the model
        cls = 'unclassified'
        pos = {r['id']: i for i, r in enumerate(exp)}
        for a, b in zip(got, got[1:]):
            if pos[a['id']] > pos[b['id']]:
                if model_key(kind, keyform, a) == model_key(kind, keyform, b):
                    cls = 'stability'
                else:
                    cls = classify('text' if (kind == 'text' or keyform == 'callable') else 'num',
                                   a['f'] if keyform != 'callable' else str(a['f']),
                                   b['f'] if keyform != 'callable' else str(b['f']))
                break
        viol.append(('order/%s' % cls, '%s: emitted ids %r (f=%r), specified %r' %
                     (label, [r['id'] for r in got], [r['f'] for r in got], [r['id'] for r in exp])))
    nontrivial = len(vals) >= 2
    return viol, 'ok' if not viol else 'violated', nontrivial


def tables(alpha, maxlen):
    for n in range(0, maxlen + 1):
        for t in itertools.product(range(len(alpha)), repeat=n):
            yield [alpha[i] for i in t]


def cases(tier):
    out = []
    full_cfg = [(k, r, b, s) for k in ('format', 'format2', 'list1', 'list2', 'callable') for r in (False, True)
                for b in (1, 2, 1000) for s in (False, True)]
    red_cfg = [('format', False, 1000, False), ('list1', True, 1000, False), ('list2', False, 2, True), ('format2', False, 1000, False),
               ('callable', True, 1, True), ('format', True, 2, True)]
    for kind, alpha in (('num', NUMS), ('text', TEXTS)):
        n_full = 2 if tier == 'quick' else 3
        n_red = 3 if tier == 'quick' else 4
        for vals in tables(alpha, n_red):
            cfgs = full_cfg if len(vals) <= n_full else red_cfg
            if tier == 'quick' and len(vals) == 3 and kind == 'num':
                cfgs = red_cfg[:2]
            if tier == 'quick' and len(vals) == 3 and kind == 'text':
                cfgs = red_cfg[:3]
            for k, r, b, s in cfgs:
                out.append({'kind': kind, 'vals': [enc(v) for v in vals], 'key': k, 'reverse': r, 'batch': b, 'small': s})
            if len(vals) in (2, 3) and kind == 'num':
                for k in ('format', 'list1', 'list2'):
                    out.append({'kind': kind, 'vals': [enc(v) for v in vals], 'key': k, 'reverse': False, 'batch': 1000, 'small': False, 'both': True})
                    if len(vals) == 2 or k == 'format':
                        out.append({'kind': kind, 'vals': [enc(v) for v in vals], 'key': k, 'reverse': k == 'list1', 'batch': 1000,
                                    'small': False, 'both': 'text-last'})
    return out


def big_case(args):
    """Sizes around the 10240-entry cache with the unpatched cache."""
    n, keyform, reverse = args
    vals = [((n - i) * 7919) % 1009 - 500 + (0.5 if i % 3 == 0 else 0) for i in range(n)]
    rows, out = run_sort('num', vals, keyform, reverse, 1000, False)
    got = out.rows[0]
    asc = sorted(rows, key=lambda r: (model_key('num', keyform, r), r['id']))
    exp = list(reversed(asc)) if reverse else asc
    ok = [r['id'] for r in got] == [r['id'] for r in exp]
    return {'n': 1, 'key': core.h(['big', n, keyform, reverse]), 'outcome': 'big-ok' if ok else 'big-violated',
            'viol': [] if ok else [('order/large-%s' % keyform, '%d rows with duplicates, key %s, reverse=%s: order differs '
                                    'from the stable model order' % (n, keyform, reverse),
                                    {'big': [n, keyform, reverse]})]}


def run(run):
    cs = cases(run.tier)
    e2.run_cases(run, __name__, cs, batch=120)
    bigs = [(n, k, r) for n in ((10241,) if run.tier == 'quick' else (10241, 25000)) for k in ('format', 'list2')
            for r in (False, True)]
    for res in run.map(big_case, bigs, chunksize=1, limit=900):
        run.absorb(res)
    run.rule = ('every table of <=%s rows (with repetition, order matters) over 11 numbers (ints, floats, Decimal, signs, '
                '1e10, 2^53, 2^53+1) and over 8 texts (prefixes of one another, hex-digit tails, case, non-BMP) x key form '
                '(format string, field list, two-field list, callable) x reverse x batch_size 1/2/1000 x cache size 2/default '
                '(reduced config product on the longest tables), plus 10241/25000-row runs with duplicates on the real '
                'cache; non-trivial = at least 2 rows; distinct by (table, configuration)' % ('3' if run.tier == 'quick' else '4'))
    run.explanation = ('reference: sorted(rows, key=(exact rational / code-point key, input index)); reverse must be the exact '
                       'reverse; unselected resource untouched; output must be a permutation')


def replay(w):
    if 'big' in w:
        return [(s, what, w) for s, what, _ in big_case(tuple(w['big']))['viol']]
    v, _, _ = check(w)
    return [(s, what, w) for s, what in v]
