"""C01 - lazy chained execution equals step-by-step evaluation (engine E1)."""
from .. import core, e1

LEVEL = 'model_checking'


def tasks(tier):
    t = []
    if tier == 'quick':
        inputs = ['P0', 'P1']
        for inp in inputs:
            for s1 in e1.SIGMA_FULL:
                t.append({'input': inp, 'prefix': [s1], 'alphabet': e1.SIGMA_FULL, 'depth': 2})
        for inp in ('P0', 'P1'):
            for s1 in e1.SIGMA_ROW:
                t.append({'input': inp, 'prefix': [s1], 'alphabet': e1.SIGMA_ROW, 'depth': 2, 'variants': True})
    else:
        inputs = ['P0', 'P1', 'P3', 'P4']
        for inp in inputs:
            for s1 in e1.SIGMA_FULL:
                t.append({'input': inp, 'prefix': [s1], 'alphabet': e1.SIGMA_FULL, 'depth': 2})
            for s1 in e1.SIGMA_NOKIND:
                t.append({'input': inp, 'prefix': [s1], 'alphabet': e1.SIGMA_NOKIND, 'depth': 1, 'tag': 'own1'})
                for s2 in e1.SIGMA_NOKIND:
                    t.append({'input': inp, 'prefix': [s1, s2], 'alphabet': e1.SIGMA_NOKIND, 'depth': 3})
        for inp in inputs:
            for s1 in e1.SIGMA_ROW:
                for s2 in e1.SIGMA_ROW:
                    t.append({'input': inp, 'prefix': [s1, s2], 'alphabet': e1.SIGMA_ROW, 'depth': 3, 'variants': True})
                t.append({'input': inp, 'prefix': [s1], 'alphabet': e1.SIGMA_ROW, 'depth': 1, 'variants': True})
    return t


def window_tasks(run):
    """Start from non-initial states too: every distinct package reachable in <=D row-level steps (state-merged BFS)
    becomes an initial state from which every window of 2 adjacent steps is checked lazily vs stepwise."""
    depth, cap = (1, 1000) if run.tier == 'quick' else (8, 2500)
    with core.quiet():
        seen, transitions, capped = e1.reachable_states(['P0', 'P1'], e1.SIGMA_ROW, depth, cap)
    run.extra['window_exploration'] = {'bfs_depth': depth, 'distinct_states': len(seen), 'bfs_transitions': transitions,
                                       'state_cap_hit': capped,
                                       'states_per_depth': {str(d): sum(1 for _, dd in seen.values() if dd == d) for d in range(depth + 1)}}
    if capped:
        run.caps.append('window exploration: state cap %d hit at BFS depth <= %d' % (cap, depth))
    run.transitions += transitions
    ts = []
    for key, (st, d) in seen.items():
        if d == 0:
            continue
        for s1 in e1.SIGMA_ROW:
            ts.append({'input': 'S:' + key, 'input_state': st.to_json(), 'prefix': [s1], 'alphabet': e1.SIGMA_ROW, 'depth': 2})
    return ts, set(seen)


def run(run):
    ts = tasks(run.tier)
    wts, wstates = window_tasks(run)
    ts = ts + wts
    # seed only rotates the order in which shards are handed out
    k = run.seed % max(1, len(ts))
    ts = ts[k:] + ts[:k]
    states = set(wstates)
    for res in run.map(e1.explore_c01, ts, chunksize=1, limit=1800):
        if res is None or res.get('timeout'):
            continue
        states.update(res.pop('states'))
        run.absorb(res)
    run.states = len(states)
    run.rule = ('every path over the step alphabet up to the depth bound from every initial package; a path is '
                'non-trivial when all its steps are accepted stepwise and the final state differs from the input; '
                'distinct by (input, path)')
    run.explanation = ('states = distinct materialised packages reached stepwise; transitions = real single-step '
                       'executions from_state(S) -> S\'; traces_validated = complete paths whose lazy chained run '
                       'was executed on the real implementation and compared with the stepwise state')
    run.extra['alphabet_sizes'] = {'full': len(e1.SIGMA_FULL), 'no_callable_kind_axis': len(e1.SIGMA_NOKIND),
                                   'row_level': len(e1.SIGMA_ROW)}
    run.extra['bounds'] = ('quick: length<=2 over the full alphabet on P0,P1; groupings/conditional/entry points on '
                           'row-level pairs. thorough: length<=3 without the callable-kind axis on 4 inputs, '
                           'full-alphabet pairs on 4 inputs, all variants on row-level triples')
    run.assumptions.append('parallelize appears with one worker on an in-process thread stand-in (schedules are C18)')


def replay(w):
    v, outcome, _ = e1.check_path(w['input'], w['path'], None, w.get('variants', False))
    return [('%s/%s' % (o, e1.first_dumper(w['path']) if o == 'late-dump-stats' else e1.shape(w['path'])), what, w)
            for o, what in v]
