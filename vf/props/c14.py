"""C14 - set_type and validate cast valid values and apply the error policy exactly (E2, reference model)."""
import re
import copy
import datetime
import itertools

import tableschema

from .. import core, e2
from ..core import mkstate, cj, enc, enc_rows

LEVEL = 'exploration'

TYPES = {
    # native values whose Python class is a subclass of the target's class are not values of the target type (True is not an
    # integer, a datetime with a time of day is not a date)
    'integer': dict(opts={'type': 'integer'}, valid=['1', '-20', 7], invalid=['x', '1.5', True]),
    'number': dict(opts={'type': 'number'}, valid=['1.5', '-2', 2.5, 3], invalid=['abc', '1,5', False]),
    'number-bare': dict(opts={'type': 'number', 'bareNumber': False}, valid=['$10.5', '20%', '4 pcs', 3], invalid=['abc', 'x']),
    'date-default': dict(opts={'type': 'date'}, valid=['2020-01-02', datetime.date(2000, 1, 1), datetime.datetime(2001, 2, 3, 0, 0)],
                         invalid=['02/01/2020', datetime.datetime(2000, 1, 1, 5, 0)]),
    'boolean': dict(opts={'type': 'boolean'}, valid=['true', 'False', True], invalid=['yes', '2']),
    'date': dict(opts={'type': 'date', 'format': '%d/%m/%Y'}, valid=['01/02/2020', '31/12/1999', datetime.date(2000, 1, 1)],
                 invalid=['2020-01-02', '32/01/2020']),
    'year': dict(opts={'type': 'year'}, valid=['2001', '1999', 2020], invalid=['abcd', '20x1']),
    'string': dict(opts={'type': 'string', 'constraints': {'maxLength': 3}}, valid=['ab', 'abc', 'a'], invalid=['abcd', 'toolong']),
    'array': dict(opts={'type': 'array'}, valid=['[1,2]', '[]', [1]], invalid=['{"a":1}', '[1,']),
    # set_type called WITHOUT a type on a field whose declared type stays: the options given refine how its cells are read
    'boolean-tokens': dict(declared={'type': 'boolean'}, opts={'trueValues': ['yes', 'Y'], 'falseValues': ['no']},
                           valid=['yes', 'no', True, 'Y'], invalid=['true', '2']),
    'number-bare-notype': dict(declared={'type': 'number'}, opts={'bareNumber': False}, valid=['$10.5', '20%', 3], invalid=['abc', 'x']),
    'title-only': dict(declared={'type': 'integer'}, opts={'title': 'T', 'description': 'd'}, valid=['1', 7, '-3'], invalid=['x', '1.5']),
}
POLICIES = ['raise', 'drop', 'ignore', 'clear', 'custom4-keep', 'custom4-drop', 'custom5-keep', 'custom5-by-field', 'custom5-default']
# validate() only: the three checked fields share a type but differ in constraints/options; the same lexical value is valid
# for one field and invalid for another (cells of one row are equal on purpose)
MIXED = {
    'string-mixed': {'f1': {'type': 'string'}, 'f2': {'type': 'string', 'constraints': {'maxLength': 3}},
                     'f.': {'type': 'string', 'constraints': {'minLength': 5}}, 'values': ['abcd', 'ab', 'abcdef', None]},
    # the same null / empty cell is fine for an optional field and an error for a required one
    'required-mixed': {'f1': {'type': 'string'}, 'f2': {'type': 'string', 'constraints': {'required': True}},
                       'f.': {'type': 'integer', 'constraints': {'required': True}}, 'values': ['7', None, '', 'ab']},
    'number-mixed': {'f1': {'type': 'number'}, 'f2': {'type': 'number', 'decimalChar': ','},
                     'f.': {'type': 'number', 'constraints': {'maximum': 2}}, 'values': ['1.5', '1,5', '3', None]},
}
FIELDS = ['f1', 'f2', 'f.', 'g']


def concrete(tname, pattern):
    """pattern: list of rows, each a tuple of classes for (f1, f2) in 'v','i','n'. 'f.' mirrors f2."""
    t = TYPES[tname]
    vi, ii = itertools.count(), itertools.count()
    rows = []
    for rid, (c1, c2) in enumerate(pattern):
        def cell(c):
            if c == 'v':
                return copy.deepcopy(t['valid'][next(vi) % len(t['valid'])])
            if c == 'i':
                return t['invalid'][next(ii) % len(t['invalid'])]
            return None
        a, b = cell(c1), cell(c2)
        rows.append({'id': rid, 'f1': a, 'f2': b, 'f.': copy.deepcopy(b), 'g': 'keep-%d' % rid})
    return rows


def checked_fields(nameform):
    name, regex = nameform
    pat = name if regex else re.escape(name)
    return [f for f in FIELDS if re.fullmatch(pat, f)]


def build(case, log):
    tname, policy, via = case['type'], case['policy'], case['via']
    if tname in MIXED:
        mx = MIXED[tname]
        rows = [{'id': rid, 'f1': mx['values'][vi], 'f2': mx['values'][vi], 'f.': mx['values'][vi], 'g': 'keep-%d' % rid}
                for rid, vi in enumerate(case['pattern'])]
        t = {'opts': {'type': mx['f1']['type']}}
    else:
        t = TYPES[tname]
        rows = concrete(tname, [tuple(p) for p in case['pattern']])
    if case.get('transform'):
        for r in rows:
            for f in ('f1', 'f2', 'f.'):
                if isinstance(r[f], str):
                    r[f] = '#' + r[f]
    full = dict(t.get('declared', {}), **t['opts'])
    declared = dict(full, format=full.get('format', 'default')) if via == 'validate' else dict(t.get('declared', {'type': 'any'}), format='default')
    fields = [{'name': 'id', 'type': 'integer', 'format': 'default'}]
    for f in ('f1', 'f2', 'f.'):
        if tname in MIXED:
            fields.append(dict(MIXED[tname][f], name=f, format='default'))
        else:
            fields.append(dict(declared, name=f))
    fields.append({'name': 'g', 'type': 'string', 'format': 'default'})
    other_rows = [dict(r, id=100 + r['id']) for r in copy.deepcopy(rows)]
    ofields = fields
    if case.get('eager'):
        # the two resources differ in which fields the name pattern selects (f2 is called h2 in the first one)
        ofields = [dict(f, name='h2') if f['name'] == 'f2' else f for f in copy.deepcopy(fields)]
        other_rows = [{('h2' if k == 'f2' else k): v for k, v in r.items()} for r in other_rows]
    if case.get('nomatch'):
        # no field of the first resource matches the name pattern; one of its own columns holds a value its schema does not allow
        ofields = [{'name': 'id', 'type': 'integer', 'format': 'default'}, {'name': 'q', 'type': 'integer', 'format': 'default'},
                   {'name': 'g', 'type': 'string', 'format': 'default'}]
        other_rows = [{'id': 100, 'q': 'not-a-number', 'g': 'keep'}, {'id': 101, 'q': 5, 'g': 'keep'}]
    if case.get('missing'):
        # the table declares its own missing-value tokens; such a cell is null, not an error
        for rws in (rows, other_rows):
            for r in rws:
                for f in list(r):
                    if f.startswith('f') or f == 'h2':
                        if r[f] is None:
                            r[f] = 'n/a'
    st = mkstate([('other', ofields, other_rows), ('t', fields, rows)])
    if case.get('missing'):
        for r in st.desc['resources']:
            r['schema']['missingValues'] = ['', 'n/a', '-']

    def handler4(keep):
        def h(res_name, row, i, e):
            log.append([res_name, row.get('id'), i, None])
            return keep
        return h

    def handler5(res_name, row, i, e, field):
        log.append([res_name, row.get('id'), i, field.name if field is not None else None])
        return True

    def handler5_by_field(res_name, row, i, e, field):
        # drop the row when f1 or f2 is bad, keep it for any other field
        log.append([res_name, row.get('id'), i, field.name if field is not None else None])
        return field is None or field.name not in ('f1', 'f2')
    def handler5_default(res_name, row, i, e, field=None):
        # the documented five-parameter form, its last parameter spelled with a default; same verdicts as custom5-by-field
        log.append([res_name, row.get('id'), i, field.name if field is not None else None])
        return field is None or field.name not in ('f1', 'f2')
    sv = core.dataflows.base.schema_validator
    on_error = {'custom5-default': handler5_default, 'raise': None, 'drop': sv.drop, 'ignore': sv.ignore, 'clear': sv.clear, 'custom4-keep': handler4(True),
                'custom4-drop': handler4(False), 'custom5-keep': handler5, 'custom5-by-field': handler5_by_field}[policy]
    kw = {}
    if on_error is not None:
        kw['on_error'] = on_error
    if via == 'set_type':
        name, regex = case['name']
        if 'resources' in case:
            kw['resources'] = case['resources']
        if case.get('transform'):
            kw['transform'] = lambda v: v[1:] if isinstance(v, str) and v.startswith('#') else v
        step = core.dataflows.set_type(name, regex=regex, **kw, **copy.deepcopy(t['opts']))
    else:
        if not case.get('default_res'):
            kw['resources'] = case.get('resources', None)
        step = core.dataflows.validate(**kw)       # default_res: the documented default (every resource) is left to the library
    return st, rows, other_rows, step


def selected_resources(case):
    via = case['via']
    sel = case.get('resources', -1 if via == 'set_type' else None)
    if sel is None:
        return ['other', 't']
    if sel == -1 or sel == 't':
        return ['t']
    raise AssertionError(sel)


def model(case, rows, resname):
    """Returns dict(raise=(index, rowid) | None, out=[rows], calls=[...])."""
    checked = checked_fields(tuple(case['name'])) if case['via'] == 'set_type' else ['f1', 'f2', 'f.']
    mv = ['', 'n/a', '-'] if case.get('missing') else ['']
    if case['type'] in MIXED:
        fobj = {f: tableschema.Field(dict(MIXED[case['type']][f], name=f, format='default'), missing_values=mv) for f in ('f1', 'f2', 'f.')}
    else:
        t = TYPES[case['type']]
        fd = dict(t.get('declared', {}), **t['opts'])
        fd = dict(fd, name='x', format=fd.get('format', 'default'))
        fobj = {f: tableschema.Field(fd, missing_values=mv) for f in ('f1', 'f2', 'f.')}
    policy = case['policy']
    out, calls = [], []
    if case['via'] == 'validate' and rows and 'h2' in rows[0]:
        fobj = dict(fobj, h2=fobj['f2'])
        checked = ['f1', 'h2', 'f.']
    for i, row in enumerate(rows):
        r = copy.deepcopy(row)
        keep = True
        for f in [k for k in row if k in checked]:
            v = r.get(f)
            if case.get('transform') and isinstance(v, str) and v.startswith('#'):
                v = v[1:]
                r[f] = v
            try:
                r[f] = fobj[f].cast_value(v)
            except tableschema.exceptions.CastError:
                if policy == 'raise':
                    return {'raise': (i, row['id']), 'out': None, 'calls': calls}
                calls.append([resname, row['id'], i, f if policy.startswith('custom5') else None])
                if policy in ('drop', 'custom4-drop') or (policy in ('custom5-by-field', 'custom5-default') and f in ('f1', 'f2')):
                    keep = False          # a row is dropped as soon as one verdict says so
                elif policy == 'clear':
                    r[f] = None
        if keep:
            out.append(r)
    return {'raise': None, 'out': out, 'calls': calls}


def typed(rows):
    return [{k: (type(v).__name__, enc(v)) for k, v in r.items()} for r in rows]


def check(case):
    log = []
    label = '%s(%s, type=%s, policy=%s%s%s) on cell classes %r' % (
        case['via'], case.get('name', ''), case['type'], case['policy'],
        ', resources=%r' % case['resources'] if 'resources' in case else '', ', transform' if case.get('transform') else '' + (', consumed by a step that requests all resources first' if case.get('eager') else '') + (', schema missingValues ["", "n/a", "-"]' if case.get('missing') else '') + (', second execution of the same Flow object' if case.get('twice') else ''),
        case['pattern'])
    try:
        st, rows, other_rows, step = build(case, log)
    except AssertionError:
        return [], 'rejected', False
    sel = selected_resources(case)
    exp = {}
    for name, rws in (('other', other_rows), ('t', rows)):
        exp[name] = model(case, rws, name) if name in sel else {'raise': None, 'out': copy.deepcopy(rws), 'calls': []}
    first_raise = next(((n, exp[n]['raise']) for n in ('other', 't') if exp[n]['raise']), None)
    try:
        links = [core.from_state(st), step]
        if case.get('eager'):
            def eager(package):
                yield package.pkg
                held = list(package)            # every resource iterator is requested before any row is read
                for res in held:
                    yield res
            links.append(eager)
        out = core.materialise(*links, via='results_raw', twice=bool(case.get('twice')), between=lambda: log.__delitem__(slice(None)))
        got = ('ok', out)
    except core.CaseTimeout:
        raise
    except AssertionError as e:
        return [], 'rejected', False
    except Exception as e:
        got = ('exc', e)
    viol = []
    pol = case['policy']
    if first_raise:
        rn, (idx, rid) = first_raise
        if got[0] == 'ok':
            viol.append(('raise-missing/%s' % case['via'], '%s: an invalid value did not abort the run' % label))
        else:
            e = got[1]
            c = getattr(e, 'cause', None)
            if not isinstance(c, core.dataflows.ValidationError):
                if isinstance(e, AssertionError) or isinstance(c, AssertionError):
                    return [], 'rejected', False
                viol.append(('raise-type/%s' % case['via'], '%s: raised %s, expected ProcessorError<ValidationError>' % (label, core.exc_sig(e))))
            else:
                if c.index != idx or (c.row or {}).get('id') != rid or c.resource_name != rn:
                    viol.append(('raise-row/%s' % case['via'], '%s: ValidationError carries resource %r index %r row id %r; the first '
                                 'offending row is %r index %d id %r' % (label, c.resource_name, c.index, (c.row or {}).get('id'), rn, idx, rid)))
        return viol, 'ok' if not viol else 'violated', True
    if got[0] == 'exc':
        e = got[1]
        if isinstance(getattr(e, 'cause', None), AssertionError):
            return [], 'rejected', False
        viol.append(('raises/%s/%s' % (case['via'], pol), '%s: raises %s: %s' % (label, core.exc_sig(e), str(e)[:100].replace('\n', ' '))))
        return viol, 'violated', True
    out = got[1]
    res = dict(zip(out.names(), out.rows))
    for name in ('other', 't'):
        g, m = res.get(name), exp[name]['out']
        if typed(g) != typed(m):
            what = 'unselected resource changed' if name not in sel else 'rows differ from the policy applied to Table Schema casts'
            gi, mi = [r['id'] for r in g], [r['id'] for r in m]
            if name in sel and gi != mi:
                oracle = 'rows-kept'
            elif name in sel:
                oracle = 'values'
                # unchecked fields?
                chk = checked_fields(tuple(case['name'])) if case['via'] == 'set_type' else ['f1', 'f2', 'f.']
                for a, b in zip(g, m):
                    for k in a:
                        if k not in chk and typed([{k: a[k]}]) != typed([{k: b.get(k)}]):
                            oracle = 'unchecked-field'
            else:
                oracle = 'unselected-resource'
            viol.append(('%s/%s/%s' % (oracle, case['via'], pol), '%s: resource %r: %s: got %r, expected %r' % (label, name, what, g, m)))
            break
    if pol.startswith('custom') and not viol:
        calls = [c for n in ('other', 't') for c in exp[n]['calls']]
        if log != calls:
            viol.append(('handler-calls/%s/%s' % (case['via'], pol), '%s: handler called with %r, expected %r' % (label, log, calls)))
    # descriptor: checked fields carry the options
    if case['via'] == 'set_type' and not viol:
        chk = checked_fields(tuple(case['name']))
        for rname in ('other', 't'):
            rd = out.desc['resources'][out.names().index(rname)]
            for f in rd['schema']['fields']:
                tt = TYPES[case['type']]
                base = tt.get('declared', {'type': 'any'})['type']
                want = tt['opts'].get('type', base) if (f['name'] in chk and rname in sel) else (base if f['name'] in ('f1', 'f2', 'f.') else None)
                if want and f['type'] != want:
                    viol.append(('schema/%s' % case['via'], '%s: field %s of %s declared %s, expected %s' % (label, f['name'], rname, f['type'], want)))
    nontrivial = case['type'] in MIXED or any('i' in p for p in case['pattern'])
    return viol, 'ok' if not viol else 'violated', nontrivial


def patterns(maxrows):
    cells = list(itertools.product('vin', repeat=2))
    for n in range(1, maxrows + 1):
        for p in itertools.product(cells, repeat=n):
            yield [list(x) for x in p]


def cases(tier):
    out = []
    maxrows = 2 if tier == 'quick' else 3
    pats = list(patterns(maxrows))
    for tname in TYPES:
        for pat in pats:
            for pol in POLICIES:
                out.append({'via': 'set_type', 'type': tname, 'policy': pol, 'pattern': pat, 'name': ['f.', True]})
            if len(pat) <= 2:
                for pol in POLICIES:
                    out.append({'via': 'validate', 'type': tname, 'policy': pol, 'pattern': pat})
        if tier == 'quick' and tname in ('date-default', 'number-bare', 'year', 'array', 'boolean-tokens', 'number-bare-notype', 'title-only'):
            continue              # quick: the option axes on the five main types
        # the other axes around the base configuration, on <=2-row tables
        for pat in [p for p in pats if len(p) <= 2]:
            for pol in ('raise', 'drop', 'clear', 'custom5-keep'):
                out.append({'via': 'set_type', 'type': tname, 'policy': pol, 'pattern': pat, 'name': ['f1', True]})
                out.append({'via': 'set_type', 'type': tname, 'policy': pol, 'pattern': pat, 'name': ['f.', False]})
                # alternation: selects f2 only (a name that merely starts with an alternative is not selected)
                out.append({'via': 'set_type', 'type': tname, 'policy': pol, 'pattern': pat, 'name': ['f|f2', True]})
                out.append({'via': 'set_type', 'type': tname, 'policy': pol, 'pattern': pat, 'name': ['f.', True], 'resources': None})
                out.append({'via': 'set_type', 'type': tname, 'policy': pol, 'pattern': pat, 'name': ['f.', True], 'resources': 't'})
                out.append({'via': 'set_type', 'type': tname, 'policy': pol, 'pattern': pat, 'name': ['f.', True], 'transform': True})
                out.append({'via': 'validate', 'type': tname, 'policy': pol, 'pattern': pat, 'resources': 't'})
                out.append({'via': 'validate', 'type': tname, 'policy': pol, 'pattern': pat, 'default_res': True})
                if len(pat) == 1:
                    out.append({'via': 'set_type', 'type': tname, 'policy': pol, 'pattern': pat, 'name': ['f.', True], 'resources': None, 'nomatch': True})
                if pol != 'raise' and len(pat) == 1:
                    # the same step object executed a second time must do the same again
                    out.append({'via': 'set_type', 'type': tname, 'policy': pol, 'pattern': pat, 'name': ['f.', True], 'twice': True})
                    out.append({'via': 'validate', 'type': tname, 'policy': pol, 'pattern': pat, 'twice': True})
                if any('n' in p for p in pat):
                    out.append({'via': 'set_type', 'type': tname, 'policy': pol, 'pattern': pat, 'name': ['f.', True], 'missing': True})
                    out.append({'via': 'validate', 'type': tname, 'policy': pol, 'pattern': pat, 'missing': True})
                if tier == 'quick' and tname not in ('integer', 'date', 'string'):
                    continue          # quick: the remaining axes on three of the seven types
                out.append({'via': 'set_type', 'type': tname, 'policy': pol, 'pattern': pat, 'name': ['f.', True], 'resources': None, 'eager': True})
                out.append({'via': 'set_type', 'type': tname, 'policy': pol, 'pattern': pat, 'name': ['f1', True], 'resources': None, 'eager': True})
                out.append({'via': 'validate', 'type': tname, 'policy': pol, 'pattern': pat, 'eager': True})
    return out


def mixed_cases(tier):
    out = []
    import itertools as it
    for tname, mx in MIXED.items():
        n = len(mx['values'])
        for k in (1, 2, 3) if tier == 'thorough' else (1, 2):
            for pat in it.product(range(n), repeat=k):
                for pol in POLICIES:
                    out.append({'via': 'validate', 'type': tname, 'policy': pol, 'pattern': list(pat)})
    return out


def run(run):
    cs = cases(run.tier) + mixed_cases(run.tier)
    e2.run_cases(run, __name__, cs, batch=200)
    run.rule = ('per target type (integer, number, boolean, date with format, year, string with maxLength, array): every '
                'pattern of cell classes {valid, invalid, null} over <=%d rows x 2 checked fields (lexical values assigned '
                'round-robin incl. already-native ones) x 7 policies for set_type (regex name) and validate; around the base '
                'configuration: exact name, regex=False on a name with a metacharacter, resources {default -1, name, None}, '
                'transform. non-trivial = the table holds an invalid cell; distinct by (type, pattern, configuration)'
                % (2 if run.tier == 'quick' else 3))
    run.explanation = ('reference: tableschema.Field.cast_value on the declared field + a 20-line model of the policy table; '
                       'emitted values compared with type; raise => ValidationError with resource, row and 0-based index of the '
                       'first offending row; handler call log compared')


def replay(w):
    v, _, _ = check(w)
    return [(s, what, w) for s, what in v]
