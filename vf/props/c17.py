"""C17 - filter_rows, deduplicate and unpivot neither lose nor invent data (E2, reference models)."""
import re
import copy
import itertools

from .. import core, e2
from ..core import mkstate, cj, enc, enc_rows

LEVEL = 'exploration'
VALS = [1, 2, None]
CELLS = list(itertools.product(VALS, repeat=2))


TWICE = [False]


def run_steps(st, *steps):
    try:
        return 'ok', core.materialise(core.from_state(st), *steps, via='results_raw', twice=TWICE[0])
    except core.CaseTimeout:
        raise
    except Exception as e:
        return 'exc', e


def mk(rows, pk=None):
    rws = [{'a': a, 'b': b, 'id': i} for i, (a, b) in enumerate(rows)]
    other = [{'a': 1, 'b': 1, 'id': 100}, {'a': 1, 'b': 1, 'id': 101}]
    st = mkstate([('other', [('a', 'integer'), ('b', 'integer'), ('id', 'integer')], other),
                  ('t', [('a', 'integer'), ('b', 'integer'), ('id', 'integer')], rws)])
    if pk is not None:
        for r in st.desc['resources']:
            r['schema']['primaryKey'] = pk
    return st, rws, other


CONDS = {
    'callable': (dict(condition=lambda row: row['a'] == 1), lambda r: r['a'] == 1),
    'eq1': (dict(equals=[{'a': 1}]), lambda r: r['a'] == 1),
    'eq2': (dict(equals=[{'a': 1}, {'b': 2}]), lambda r: r['a'] == 1 or r['b'] == 2),
    'eq-dict2': (dict(equals=[{'a': 1, 'b': 2}]), lambda r: r['a'] == 1 or r['b'] == 2),
    'eq-null': (dict(equals=[{'a': None}]), lambda r: r['a'] is None),
    'ne1': (dict(not_equals=[{'a': 1}]), lambda r: r['a'] != 1),
    'ne2': (dict(not_equals=[{'a': 1}, {'b': 2}]), lambda r: r['a'] != 1 or r['b'] != 2),
    'both': (dict(equals=[{'a': 1}], not_equals=[{'b': 2}]), lambda r: r['a'] == 1 or r['b'] != 2),
    'eq-same-field': (dict(equals=[{'a': 1}, {'a': 2}]), lambda r: r['a'] == 1 or r['a'] == 2),
    'ne-same-field': (dict(not_equals=[{'b': 1}, {'b': 2}]), lambda r: r['b'] != 1 or r['b'] != 2),
    'eq-ne-same-field': (dict(equals=[{'a': None}, {'a': 1}], not_equals=[{'a': 1}]), lambda r: r['a'] is None or r['a'] == 1 or r['a'] != 1),
    'callable-false': (dict(condition=lambda row: False), lambda r: False),
}


def check(case):
    TWICE[0] = bool(case.get('rerun'))
    try:
        v, o, n = globals()['check_' + case['proc']](case)
    finally:
        TWICE[0] = False
    if case.get('rerun'):
        v = [('rerun-' + sg, 'second execution of the same Flow object: ' + what) for sg, what in v]
    return v, o, n


def common(label, proc, out, other, exp):
    viol = []
    if out.names() != ['other', 't']:
        return [('resources/%s' % proc, '%s: resources %r' % (label, out.names()))]
    if enc_rows(out.rows[0]) != enc_rows(other):
        viol.append(('unselected/%s' % proc, '%s: the unselected resource changed' % label))
    if enc_rows(out.rows[1]) != enc_rows(exp):
        g, e = out.rows[1], exp
        oracle = 'rows'
        if len(g) < len(e):
            oracle = 'row-lost'
        elif len(g) > len(e):
            oracle = 'row-invented'
        elif sorted(cj(enc(r)) for r in g) == sorted(cj(enc(r)) for r in e):
            oracle = 'order'
        viol.append(('%s/%s' % (oracle, proc), '%s: emitted %r, specified %r' % (label, g, e)))
    return viol


def check_filter(case):
    st, rws, other = mk(case['rows'])
    kw, pred = CONDS[case['cond']]
    label = 'filter_rows(%s) on %r' % (case['cond'], case['rows'])
    kind, out = run_steps(st, core.dataflows.filter_rows(resources='t', **copy.deepcopy({k: v for k, v in kw.items() if k != 'condition'}),
                                                         **({'condition': kw['condition']} if 'condition' in kw else {})))
    if kind == 'exc':
        return [('raises/filter', '%s raises %s: %s' % (label, core.exc_sig(out), str(out)[:80]))], 'violated', True
    exp = [r for r in rws if pred(r)]
    v = common(label, 'filter', out, other, exp)
    return v, 'ok' if not v else 'violated', 0 < len(exp) < len(rws)


STR_KEYS = ['a:b', 'a', 'b:c', 'c', 'None', None, '1', 'a:b:c']


def check_dedup_str(case):
    """Text keys (two-field primary key) that run into each other when glued together."""
    rws = [{'a': a, 'b': b, 'id': i} for i, (a, b) in enumerate(case['rows'])]
    other = [{'a': 'a', 'b': 'b:c', 'id': 100}]
    st = mkstate([('other', [('a', 'string'), ('b', 'string'), ('id', 'integer')], other),
                  ('t', [('a', 'string'), ('b', 'string'), ('id', 'integer')], rws)])
    for r in st.desc['resources']:
        r['schema']['primaryKey'] = ['a', 'b']
    label = 'deduplicate with primaryKey [a, b] on text keys %r' % (case['rows'],)
    kind, out = run_steps(st, core.dataflows.deduplicate(resources='t'))
    if kind == 'exc':
        return [('raises/deduplicate', '%s raises %s: %s' % (label, core.exc_sig(out), str(out)[:80]))], 'violated', True
    seen, exp = set(), []
    for r in rws:
        k = (r['a'], r['b'])
        if k in seen:
            continue
        seen.add(k)
        exp.append(r)
    v = common(label, 'deduplicate', out, other, exp)
    return v, 'ok' if not v else 'violated', True


def check_dedup(case):
    pk = case['pk']
    st, rws, other = mk(case['rows'], pk)
    sel = None if case.get('all') else 't'
    label = 'deduplicate(resources=%r) with primaryKey %r on %r%s' % (sel, pk, case['rows'], ' applied twice' if case.get('twice') else '')
    steps = [core.dataflows.deduplicate(resources=sel)]
    if case.get('twice'):
        steps.append(core.dataflows.deduplicate(resources=sel))
    if case.get('all'):
        # every resource is de-duplicated on its own: 'other' holds two rows with a = b = 1 (keys that also occur in 't')
        other = other[:1] if pk else other
    kind, out = run_steps(st, *steps)
    if kind == 'exc':
        return [('raises/deduplicate', '%s raises %s: %s' % (label, core.exc_sig(out), str(out)[:80]))], 'violated', True
    seen, exp = set(), []
    for r in rws:
        k = tuple(r[f] for f in pk)
        if pk and k in seen:
            continue
        seen.add(k)
        exp.append(r)
    v = common(label, 'deduplicate', out, other, exp)
    return v, 'ok' if not v else 'violated', len(exp) < len(rws)


UFIELDS = ['id', 'x1', 'x2', 'x.', 'y', 'x1_note', 'ax1']      # incl. names that merely start / end with a matching name
SPECS = {
    'literal': (dict(unpivot_fields=[{'name': 'x1', 'keys': {'k': 'one'}}, {'name': 'x2', 'keys': {'k': 'two'}}]), True),
    'literal-reversed': (dict(unpivot_fields=[{'name': 'x2', 'keys': {'k': 'two'}}, {'name': 'x1', 'keys': {'k': 'one'}}]), True),
    'backref': (dict(unpivot_fields=[{'name': 'x([0-9])', 'keys': {'k': r'n\1'}}]), True),
    'hetero-keys': (dict(unpivot_fields=[{'name': 'x1', 'keys': {'k': 'one', 'n': 5}}, {'name': 'x2', 'keys': {'k': 'two'}},
                                         {'name': 'y', 'keys': {'n': 9}}]), True),
    'named-group': (dict(unpivot_fields=[{'name': 'x(?P<n>[0-9])', 'keys': {'k': r'n\g<n>'}}]), True),
    'numbered-g': (dict(unpivot_fields=[{'name': 'x([0-9])', 'keys': {'k': r'\g<1>!'}}]), True),
    'overlap': (dict(unpivot_fields=[{'name': 'x1', 'keys': {'k': 'first'}}, {'name': 'x.', 'keys': {'k': 'rest'}}]), True),
    'constant': (dict(unpivot_fields=[{'name': 'x[12]', 'keys': {'k': 'c', 'n': 7}}]), True),
    'noregex-meta': (dict(unpivot_fields=[{'name': 'x.', 'keys': {'k': 'dot'}}]), False),
    # regex=False: key values are plain text too (backslashes and group references are not templates)
    'noregex-backslash': (dict(unpivot_fields=[{'name': 'x1', 'keys': {'k': 'EMEA\\north'}}, {'name': 'x2', 'keys': {'k': 'a\\1b\\g<0>'}}]), False),
    'regex-meta': (dict(unpivot_fields=[{'name': 'x.', 'keys': {'k': 'any'}}]), True),
    'all': (dict(unpivot_fields=[{'name': '(x.|y)', 'keys': {'k': r'\1'}}]), True),
}


def check_unpivot(case):
    spec, regex = SPECS[case['spec']]
    fields = case['fields']
    rows = [{f: ('%s%d' % (f, i) if (i + j) % 3 else None) if f != 'id' else i for j, f in enumerate(fields)} for i in range(case['nrows'])]
    other = [{f: 'o' if f != 'id' else 9 for f in fields}]
    fl = [(f, 'integer' if f == 'id' else 'string') for f in fields]
    st = mkstate([('other', fl, other), ('t', fl, copy.deepcopy(rows))])
    extra_keys = [{'name': 'k', 'type': 'string'}]
    if case['spec'] in ('constant', 'hetero-keys'):
        extra_keys.append({'name': 'n', 'type': 'integer'})
    label = 'unpivot(%s, regex=%s) on fields %r x %d rows' % (case['spec'], regex, fields, case['nrows'])
    # model
    remaining = list(fields)
    unp = []
    for uf in spec['unpivot_fields']:
        m = [f for f in remaining if (re.fullmatch(uf['name'], f) if regex else f == uf['name'])]
        remaining = [f for f in remaining if f not in m]
        for f in m:
            keys = {}
            for kk, vv in uf['keys'].items():
                keys[kk] = re.sub(uf['name'], vv, f) if (regex and isinstance(vv, str)) else vv
            unp.append((f, keys))
    exp = []
    for r in rows:
        for f, keys in unp:
            nr = dict(keys)
            for kf in remaining:
                nr[kf] = r[kf]
            nr['v'] = r.get(f)
            exp.append(nr)
    exp_fields = remaining + [e['name'] for e in extra_keys] + ['v']
    kind, out = run_steps(st, core.dataflows.unpivot(copy.deepcopy(spec['unpivot_fields']), copy.deepcopy(extra_keys),
                                                     {'name': 'v', 'type': 'string'}, regex=regex, resources='t'))
    if kind == 'exc':
        return [('raises/unpivot', '%s raises %s: %s' % (label, core.exc_sig(out), str(out)[:80]))], 'violated', True
    v = common(label, 'unpivot', out, other, exp)
    gf = [f['name'] for f in out.desc['resources'][1]['schema']['fields']]
    if gf != exp_fields:
        v.append(('schema/unpivot', '%s: schema fields %r, expected %r' % (label, gf, exp_fields)))
    of = [f['name'] for f in out.desc['resources'][0]['schema']['fields']]
    if of != fields:
        v.append(('unselected-schema/unpivot', '%s: unselected schema became %r' % (label, of)))
    return v, 'ok' if not v else 'violated', len(unp) > 0 and case['nrows'] > 0


def check_unpivot_two(case):
    """Two selected resources whose unpivoted columns differ, their row iterators pulled in an order other than one after the
    other: every resource must come out exactly as the same step gives it when it is the only resource (differential)."""
    import itertools as it_
    spec, regex = SPECS[case['spec']]
    sets = [['id', 'x1', 'x2'], ['id', 'x2', 'x3', 'y'], ['id', 'y']][:case['nres']]
    res = []
    for k, fields in enumerate(sets):
        rows = [{f: ('%s%d%d' % (f, k, i) if (i + j) % 3 else None) if f != 'id' else 10 * k + i for j, f in enumerate(fields)}
                for i in range(case['nrows'])]
        res.append(('r%d' % k, [(f, 'integer' if f == 'id' else 'string') for f in fields], rows))
    extra_keys = [{'name': 'k', 'type': 'string'}]
    if case['spec'] in ('constant', 'hetero-keys'):
        extra_keys.append({'name': 'n', 'type': 'integer'})

    def step():
        return core.dataflows.unpivot(copy.deepcopy(spec['unpivot_fields']), copy.deepcopy(extra_keys), {'name': 'v', 'type': 'string'},
                                      regex=regex, resources=None)
    label = 'unpivot(%s) over %d resources with fields %r, %d rows each, iterators pulled %s' % (case['spec'], len(sets), sets, case['nrows'], case['order'])
    try:
        alone = []
        for r in res:
            alone.append(core.materialise(core.from_state(mkstate([r])), step(), via='results_raw').rows[0])
        ds = core.Flow(core.from_state(mkstate(res), sequential=False), step()).datastream()
        its = list(ds.res_iter)
        got = [[] for _ in its]
        if case['order'] == 'all-requested-first':
            for k, i_ in enumerate(its):
                got[k] = list(i_)
        elif case['order'] == 'last-first':
            for k in reversed(range(len(its))):
                got[k] = list(its[k])
        else:     # 'lockstep'
            for tup in it_.zip_longest(*its):
                for k, r in enumerate(tup):
                    if r is not None:
                        got[k].append(r)
    except core.CaseTimeout:
        raise
    except Exception as e:
        return [('raises/unpivot-two', '%s raises %s: %s' % (label, core.exc_sig(e), str(e)[:80]))], 'violated', True
    v = []
    for k, (g, a) in enumerate(zip(got, alone)):
        if enc_rows(g) != enc_rows(a):
            v.append(('rows/unpivot-out-of-order', '%s: resource r%d comes out as %r, alone it gives %r' % (label, k, g[:3], a[:3])))
            break
    return v, 'ok' if not v else 'violated', case['nrows'] > 0


def tables(maxrows):
    for n in range(maxrows + 1):
        for t in itertools.product(CELLS, repeat=n):
            yield [list(c) for c in t]


def cases(tier):
    out = []
    # key values whose hashes collide in CPython (hash(-1) == hash(-2)), 0 vs False-like, big ints
    special = [[-1, 1], [-2, 1], [-1, 2], [2 ** 61 - 1, 1], [0, 1], [-2, 2]]
    for n in (2, 3):
        for rows in itertools.permutations(special, n):
            for pk in (['a'], ['a', 'b'], ['b', 'a']):
                out.append({'proc': 'dedup', 'rows': [list(r) for r in rows], 'pk': pk})
    pairs = [(a, b) for a in STR_KEYS for b in STR_KEYS]
    for p1 in pairs:
        for p2 in pairs:
            if p1 != p2 and ':'.join(map(str, p1)) == ':'.join(map(str, p2)):
                out.append({'proc': 'dedup_str', 'rows': [list(p1), list(p2), list(p1)]})
    maxrows = 3 if tier == 'quick' else 4
    for rows in tables(maxrows):
        conds = list(CONDS) if len(rows) <= 3 else ['eq2', 'both', 'ne2', 'eq-same-field']
        for c in conds:
            out.append({'proc': 'filter', 'rows': rows, 'cond': c})
        for pk in ([], ['a'], ['a', 'b'], ['b', 'a']):
            if len(rows) <= 3 or pk == ['a', 'b']:
                out.append({'proc': 'dedup', 'rows': rows, 'pk': pk})
                if len(rows) <= 3:
                    out.append({'proc': 'dedup', 'rows': rows, 'pk': pk, 'twice': True})
                    out.append({'proc': 'dedup', 'rows': rows, 'pk': pk, 'all': True})
    # the same step objects executed a second time (tables of <=2 rows)
    for c in list(out):
        if len(c.get('rows', [])) <= 2 and not c.get('twice') and not c.get('all') and c['proc'] in ('filter', 'dedup') and \
                c.get('cond', 'eq2') in ('eq2', 'both', 'callable') and c.get('pk', ['a']) in (['a'], ['a', 'b']):
            out.append(dict(c, rerun=True))
    fieldsets = []
    for n in (2, 3, 4, 5):
        for fs in itertools.combinations(UFIELDS, n):
            if n == 5 and ('x1_note' in fs or 'ax1' in fs) and tier == 'quick':
                continue
            if any(f.startswith('x') for f in fs):
                fieldsets.append(list(fs))
            elif n == 2:
                fieldsets.append(list(fs))       # nothing to unpivot in a selected resource: it ends up without rows
    for fs in fieldsets:
        for spec in SPECS:
            for nrows in (0, 1, 2, 3):
                out.append({'proc': 'unpivot', 'fields': fs, 'spec': spec, 'nrows': nrows})
                if nrows == 2 and len(fs) <= 3:
                    out.append({'proc': 'unpivot', 'fields': fs, 'spec': spec, 'nrows': nrows, 'rerun': True})
    for spec in SPECS:
        if SPECS[spec][1]:
            for nres in (2, 3):
                for nrows in (1, 2):
                    for order in ('all-requested-first', 'last-first', 'lockstep'):
                        out.append({'proc': 'unpivot_two', 'spec': spec, 'nres': nres, 'nrows': nrows, 'order': order})
    return out


def run(run):
    cs = cases(run.tier)
    e2.run_cases(run, __name__, cs, batch=200)
    run.rule = ('filter_rows / deduplicate: every table of <=%d rows over cells (a, b) in {1, 2, null}^2 x 9 conditions (callable, '
                'equals with 1-2 dicts or a 2-item dict, null value, not_equals, both) / primary keys {none, [a], [a,b], [b,a]} '
                'once and twice; unpivot: every field set of 2-5 names from {id, x1, x2, x., y} x 8 specs (literal names in two '
                'orders, back-reference, overlapping patterns, constant keys, metacharacter name with regex on/off, catch-all) x '
                '0-3 rows with nulls. distinct by case' % (3 if run.tier == 'quick' else 4))
    run.explanation = 'reference models: subsequence satisfying any-of semantics; first row per key tuple; row-major expansion with re.sub key derivation'


def replay(w):
    v, _, _ = check(w)
    return [(s, what, w) for s, what in v]
