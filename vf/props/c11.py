"""C11 - join computes the relational join with the documented aggregates (E2, reference model)."""
import copy
import decimal
import itertools
import collections

import kvfile

from .. import core, e2
from ..core import mkstate, cj, enc, dec

LEVEL = 'exploration'

NUM_AGGS = ['sum', 'avg', 'median', 'max', 'min', 'first', 'last', 'count', 'counters', 'set', 'array', 'any']
TXT_AGGS = ['sum', 'max', 'min', 'first', 'last', 'count', 'counters', 'set', 'array', 'any']
KEYS_SRC = ['a', 'b', None]
KEYS_TGT = ['a', 'c', None]
NUMV = [1, 0, None, -1]
TXTV = ['x', 'y', None]


NUMKEY = {'a': decimal.Decimal('1.0'), 'b': decimal.Decimal('1.00'), 'c': decimal.Decimal('1.00'), None: None}


def fields_spec(universe, wildcard=False, onlylast=False):
    aggs = NUM_AGGS if universe == 'num' else TXT_AGGS
    if onlylast == 'defaults':
        # every spec left to its default (source field = target name, aggregate any), given as None and as {}
        return collections.OrderedDict([('v', None), ('o', {}), ('k', None)])
    if onlylast == 'empty':
        return collections.OrderedDict()        # join used as a pure key filter / semi-join
    if isinstance(onlylast, str) and onlylast.startswith('wild-'):
        # every source field not mentioned explicitly gets the aggregate through the catch-all
        return collections.OrderedDict([('k', {'aggregate': 'last'}), ('*', {'aggregate': onlylast[5:]})])
    if onlylast:
        # nothing but 'last' and the default 'any' (no aggregate that needs a running state)
        return collections.OrderedDict([('v_last', {'name': 'v', 'aggregate': 'last'}), ('v_any', {'name': 'v'}),
                                        ('o_last', {'name': 'o', 'aggregate': 'last'})])
    f = collections.OrderedDict()
    for a in aggs:
        f['v_' + a] = {'name': 'v', 'aggregate': a}
    f['n_rows'] = {'aggregate': 'count'}
    if wildcard:
        f = collections.OrderedDict([('v_sum', {'name': 'v', 'aggregate': 'sum'}), ('*', {'aggregate': 'last'})])
    return f


class SmallCache(kvfile.KVFile):
    def __init__(self, *a, **k):
        k['size'] = 2
        super().__init__(*a, **k)


def key_spec(shape, side):
    if shape == 'rownum+k':
        return '{#}:{k}'
    if shape == 'list':
        return ['k']
    if shape == 'format':
        return 'K-{k}'
    if shape == 'rownum':
        return '{#}'
    raise AssertionError(shape)


def render(shape, row, n):
    if shape == 'rownum+k':
        return '{#}:{k}'.format(**dict(row, **{'#': n}))
    if shape == 'list':
        return '{k}'.format(**row)
    if shape == 'format':
        return 'K-{k}'.format(**row)
    return '{#}'.format(**{'#': n})


# ---- reference model ---------------------------------------------------------------------------
def aggregate(agg, vals, nrows):
    """vals: the matching non-null source values in source order."""
    if agg == 'count':
        return nrows
    if agg == 'set':
        return ('set', sorted(set(vals), key=repr))
    if agg == 'array':
        return list(vals)
    if agg == 'counters':
        return ('counters', sorted(collections.Counter(vals).items(), key=repr))
    if not vals:
        return None
    if agg == 'sum':
        r = vals[0]
        for v in vals[1:]:
            r = v + r if isinstance(v, str) else r + v     # documented: concatenation for strings (impl: new + curr)
        return ('sum', sorted(vals, key=repr)) if isinstance(vals[0], str) else sum(vals)
    if agg == 'avg':
        return sum(vals) / len(vals)
    if agg == 'median':
        s = sorted(vals)
        m = len(s) // 2
        return s[m] if len(s) % 2 else (s[m - 1] + s[m]) / 2
    if agg == 'max':
        return max(vals)
    if agg == 'min':
        return min(vals)
    if agg == 'first':
        return vals[0]
    if agg == 'last':
        return vals[-1]
    if agg == 'any':
        return ('any', sorted(set(vals), key=repr))
    raise AssertionError(agg)


def norm_value(agg, v):
    """Bring an emitted value to the model's comparison form (anything of an unexpected shape is kept as it is and will
    simply not compare equal)."""
    try:
        return _norm_value(agg, v)
    except Exception:
        return ('unexpected-shape', repr(v))


def _norm_value(agg, v):
    if v is None:
        return None
    if agg == 'set':
        return ('set', sorted((tuple(x) if isinstance(x, list) else x for x in (v or [])), key=repr))
    if agg == 'counters':
        return ('counters', sorted(((tuple(x)[0], tuple(x)[1]) for x in (v or [])), key=repr))
    if agg == 'sum' and isinstance(v, str):
        return ('sum', sorted(v, key=repr))      # one character per value in this alphabet
    return v


def model_join(src, tgt, shape, mode, fields, dedup=False):
    groups = collections.OrderedDict()
    for n, r in enumerate(src, start=1):
        groups.setdefault(render(shape, r, n), []).append(r)

    def extra(key):
        rows = groups[key]
        out = {}
        for name, spec in fields.items():
            col = spec.get('name', name)
            vals = [r.get(col) for r in rows if r.get(col) is not None]
            # documented: count = occurrences of the key; with an explicit source field, its non-null values
            n = len(vals) if (spec['aggregate'] == 'count' and spec.get('name')) else len(rows)
            out[name] = aggregate(spec['aggregate'], vals, n)
        return out
    if dedup:
        return [extra(k) for k in sorted(groups)]
    out, used = [], set()
    for n, r in enumerate(tgt, start=1):
        k = render(shape, r, n)
        if k in groups:
            used.add(k)
            row = dict(r)
            row.update(extra(k))
            out.append(row)
        elif mode != 'inner':
            row = dict(r)
            for name in fields:
                row.setdefault(name, None)
            out.append(row)
    if mode == 'full-outer':
        for k in sorted(groups):
            if k not in used:
                row = extra(k)
                if shape != 'rownum':
                    row['k'] = groups[k][-1].get('k')
                out.append(row)
    return out


# ---- execution ---------------------------------------------------------------------------------
def run_join(case):
    universe = case['u']
    km = NUMKEY if case.get('numkey') else {k: k for k in ('a', 'b', 'c', None)}
    src = [{'k': km[k], 'v': v, 'o': i} for i, (k, v) in enumerate(case['src'])]
    tk = 'tk' if case.get('tkey') else 'k'
    tgt = [{tk: km[k], 't': 'T%d' % i} for i, k in enumerate(case['tgt'])]
    vtype = 'integer' if universe == 'num' else 'string'
    ktype = 'number' if case.get('numkey') else 'string'
    st = mkstate([('src', [('k', ktype), ('v', vtype), ('o', 'integer')], src),
                  ('mid', [('z', 'string')], [{'z': 'untouched'}]),
                  ('tgt', [(tk, ktype), ('t', 'string')], tgt)])
    wildcard = case.get('wild', False)
    fields = fields_spec(universe, wildcard, case.get('onlylast', False))
    m = core.mod('dataflows.processors.join')
    old = m.KVFile
    if case.get('spill'):
        m.KVFile = SmallCache
    try:
        if case.get('dedup'):
            step = core.dataflows.join_with_self('src', key_spec(case['shape'], 's'), copy.deepcopy(dict(fields)))
        else:
            tspec = key_spec(case['shape'], 't')
            if case.get('tkey'):
                tspec = ['tk'] if case['shape'] == 'list' else tspec.replace('{k}', '{tk}')
            step = core.dataflows.join('src', key_spec(case['shape'], 's'), 'tgt', tspec,
                                       copy.deepcopy(dict(fields)), mode=case['mode'],
                                       source_delete=case.get('source_delete', True))
        tail = []
        if case.get('mutate_after'):
            # a later step edits the rows of the (kept) source resource in place: the join has long passed them on
            def wipe(rows):
                for r in rows:
                    if rows.res.name == 'src':
                        r['v'] = None if universe == 'txt' else 0
                        r['k'] = 'zzz'
                    yield r
            tail = [wipe]
        out = core.materialise(core.from_state(st), step, *tail)
    finally:
        m.KVFile = old
    return src, tgt, fields, out


def check(case):
    label = 'join(%s) src=%r tgt=%r' % (', '.join('%s=%s' % (k, case[k]) for k in ('u', 'shape', 'mode', 'source_delete', 'spill', 'dedup', 'wild', 'tkey', 'onlylast', 'numkey', 'mutate_after') if k in case),
                                       case['src'], case['tgt'])
    try:
        src, tgt, fields, out = run_join(case)
    except core.CaseTimeout:
        raise
    except Exception as e:
        return [('raises/%s' % type(getattr(e, 'cause', e)).__name__, '%s raises %s: %s' % (label, core.exc_sig(e), str(e)[:120].replace('\n', ' ')))], 'raises', True
    viol = []
    names = out.names()
    dedup = case.get('dedup', False)
    if case.get('onlylast') == 'defaults':
        eff = collections.OrderedDict([('v', {'name': 'v', 'aggregate': 'any'}), ('o', {'name': 'o', 'aggregate': 'any'}),
                                       ('k', {'name': 'k', 'aggregate': 'any'})])
    elif isinstance(case.get('onlylast'), str) and case['onlylast'].startswith('wild-'):
        agg = case['onlylast'][5:]
        eff = collections.OrderedDict([('k', {'name': 'k', 'aggregate': 'last'}), ('v', {'name': 'v', 'aggregate': agg}),
                                       ('o', {'name': 'o', 'aggregate': agg})])
    elif case.get('wild'):
        # '*' applies to the source fields not specifically mentioned (v is mentioned by v_sum)
        eff = collections.OrderedDict([('v_sum', {'name': 'v', 'aggregate': 'sum'}), ('k', {'name': 'k', 'aggregate': 'last'}),
                                       ('o', {'name': 'o', 'aggregate': 'last'})])
    else:
        eff = fields
    for f in eff.values():
        f.setdefault('aggregate', 'any')
    exp_names = (['src', 'mid', 'tgt'] if (dedup or not case.get('source_delete', True)) else ['mid', 'tgt'])
    if dedup:
        exp_names = ['src', 'mid', 'tgt'][1:] if False else exp_names
    # resources
    if dedup:
        # join_with_self replaces the resource by its de-duplicated form
        exp_names = ['src', 'mid', 'tgt']
    if names != exp_names:
        viol.append(('resources', '%s: resources %r, expected %r' % (label, names, exp_names)))
        return viol, 'violated', True
    res = dict(zip(names, out.rows))
    if res['mid'] != [{'z': 'untouched'}]:
        viol.append(('untouched', '%s: the unrelated resource changed' % label))
    if not dedup and not case.get('source_delete', True) and not case.get('mutate_after') and core.enc_rows(res['src']) != core.enc_rows(src):
        viol.append(('source-changed', '%s: the kept source resource changed' % label))
    got = res['src'] if dedup else res['tgt']
    tk = 'tk' if case.get('tkey') else 'k'
    exp = model_join(src, [dict(r, k=r[tk]) for r in tgt] if tk != 'k' else tgt, case['shape'], case.get('mode'), eff, dedup)
    if tk != 'k':
        for r in exp:          # the model works on 'k'; the target's key field is called tk
            r[tk] = r.pop('k', None)
    # normalise
    tname = 'src' if dedup else 'tgt'
    tdesc = out.desc['resources'][names.index(tname)]
    declared = [f['name'] for f in tdesc['schema']['fields']]
    allnames = list(declared)

    def nrow(r, is_model):
        o = {}
        for n in allnames:
            v = r.get(n)
            agg = eff[n]['aggregate'] if n in eff else None
            o[n] = v if is_model else norm_value(agg, v)
        return o
    extra_keys = [k for r in got for k in r if k not in declared]
    if extra_keys:
        viol.append(('undeclared', '%s: rows carry undeclared fields %r' % (label, sorted(set(extra_keys)))))
    g = [nrow(r, False) for r in got]
    e = [nrow(r, True) for r in exp]
    if len(g) != len(e):
        viol.append(('row-count/%s' % (case.get('mode') or 'dedup'), '%s: %d rows, relational join gives %d' % (label, len(g), len(e))))
    else:
        for i, (a, b) in enumerate(zip(g, e)):
            for n in allnames:
                x, y = a[n], b[n]
                agg = eff[n]['aggregate'] if n in eff else 'target-field'
                okv = (x == y) or (isinstance(y, tuple) and y[0] == 'any' and (x in y[1] or (x is None and not y[1])))
                if isinstance(x, float) and isinstance(y, (int, float)) and not isinstance(y, bool):
                    okv = okv or abs(x - y) < 1e-12
                if not okv:
                    sig = 'value/%s' % agg
                    if agg == 'count' and eff[n].get('name'):
                        sig = 'value/count-with-name'
                    if not any(v[0] == sig for v in viol):
                        viol.append((sig, '%s: row %d field %s = %r, definition gives %r' % (label, i, n, got[i].get(n), y)))
    # schema: new fields appended after the target's own, types per aggregate
    if not dedup:
        if declared[:2] != [tk, 't']:
            viol.append(('schema-order', '%s: target fields became %r' % (label, declared)))
        missing = [n for n in eff if n not in declared]
        if missing:
            viol.append(('schema-missing', '%s: fields %r not declared' % (label, missing)))
    nontrivial = len(src) > 0 and (dedup or len(tgt) > 0)
    return viol, 'ok' if not viol else 'violated', nontrivial


def seqs(alpha, maxlen):
    for n in range(maxlen + 1):
        yield from (list(t) for t in itertools.product(alpha, repeat=n))


def cases(tier):
    out = []
    smax = 2 if tier == 'quick' else 2
    tmax = 2 if tier == 'quick' else 3
    for u, vals in (('num', NUMV), ('txt', TXTV)):
        srcs = list(seqs(list(itertools.product(KEYS_SRC, vals)), smax))
        tgts = list(seqs(KEYS_TGT, tmax))
        shapes = ['list', 'format', 'rownum'] if u == 'num' else ['list']
        for s in srcs:
            for t in tgts:
                for mode in ('inner', 'half-outer', 'full-outer'):
                    for shape in shapes:
                        if tier == 'quick' and shape != 'list' and (len(s) == 2 and len(t) == 2):
                            continue        # quick: the other key shapes on tables with at most 3 rows in total
                        out.append({'u': u, 'src': s, 'tgt': t, 'mode': mode, 'shape': shape})
        # config axes around the base configuration
        for s in srcs:
            for t in tgts[:4] + tgts[-2:]:
                for mode in ('inner', 'full-outer'):
                    out.append({'u': u, 'src': s, 'tgt': t, 'mode': mode, 'shape': 'list', 'source_delete': False})
                    out.append({'u': u, 'src': s, 'tgt': t, 'mode': mode, 'shape': 'list', 'source_delete': False, 'mutate_after': True})
                    out.append({'u': u, 'src': s, 'tgt': t, 'mode': mode, 'shape': 'list', 'spill': True})
                out.append({'u': u, 'src': s, 'tgt': t, 'mode': 'half-outer', 'shape': 'list', 'wild': True})
                for mode in ('inner', 'half-outer', 'full-outer'):
                    out.append({'u': u, 'src': s, 'tgt': t, 'mode': mode, 'shape': 'list', 'onlylast': 'defaults'})
                    out.append({'u': u, 'src': s, 'tgt': t, 'mode': mode, 'shape': 'list', 'onlylast': 'empty'})
                    if u == 'num':
                        out.append({'u': u, 'src': s, 'tgt': t, 'mode': mode, 'shape': 'rownum', 'onlylast': 'empty'})
                if u == 'num' and len(t) <= 1:
                    for agg in ('avg', 'median', 'set', 'array', 'counters', 'max'):
                        out.append({'u': u, 'src': s, 'tgt': t, 'mode': 'half-outer', 'shape': 'list', 'onlylast': 'wild-' + agg})
                for mode in ('half-outer', 'full-outer'):
                    out.append({'u': u, 'src': s, 'tgt': t, 'mode': mode, 'shape': 'list', 'onlylast': True})
                    if u == 'num':
                        # key values that are equal as numbers but render differently (1.0 / 1.00): distinct keys
                        out.append({'u': u, 'src': s, 'tgt': t, 'mode': mode, 'shape': 'list', 'numkey': True})
                        out.append({'u': u, 'src': s, 'tgt': t, 'mode': mode, 'shape': 'format', 'numkey': True})
                for mode in ('inner', 'half-outer', 'full-outer'):
                    out.append({'u': u, 'src': s, 'tgt': t, 'mode': mode, 'shape': 'list', 'tkey': True})
                    if u == 'num':
                        out.append({'u': u, 'src': s, 'tgt': t, 'mode': mode, 'shape': 'format', 'tkey': True})
            for shape in shapes:
                out.append({'u': u, 'src': s, 'tgt': [], 'shape': shape, 'dedup': True})
                out.append({'u': u, 'src': s, 'tgt': [], 'shape': shape, 'dedup': True, 'spill': True})
            out.append({'u': u, 'src': s, 'tgt': [], 'shape': 'list', 'dedup': True, 'onlylast': True})
            if u == 'num':
                for agg in ('avg', 'set', 'counters'):
                    out.append({'u': u, 'src': s, 'tgt': [], 'shape': 'list', 'dedup': True, 'onlylast': 'wild-' + agg})
            if u == 'num':
                out.append({'u': u, 'src': s, 'tgt': [], 'shape': 'list', 'dedup': True, 'numkey': True})
        if u == 'num':
            # keys made of the row number AND a field, three rows on each side: an unmatched target row in the middle
            for sk in itertools.product(('a', 'b'), repeat=3):
                for tk in itertools.product(('a', 'c'), repeat=3):
                    for mode in ('inner', 'half-outer', 'full-outer'):
                        out.append({'u': u, 'src': [[k_, 1] for k_ in sk], 'tgt': list(tk), 'mode': mode, 'shape': 'rownum+k'})
        if tier == 'thorough':
            for s in seqs(list(itertools.product(KEYS_SRC, vals)), 3):
                if len(s) < 3:
                    continue
                for t in tgts[:13]:
                    for mode in ('inner', 'half-outer', 'full-outer'):
                        out.append({'u': u, 'src': s, 'tgt': t, 'mode': mode, 'shape': 'list'})
                out.append({'u': u, 'src': s, 'tgt': [], 'shape': 'list', 'dedup': True})
                out.append({'u': u, 'src': s, 'tgt': ['a', 'c'], 'mode': 'full-outer', 'shape': 'list', 'spill': True})
    return out


def big_case(mode):
    """> 10240 distinct keys with the unpatched cache: the real on-disk index."""
    n = 10300
    src = [{'k': 'k%05d' % (i % n), 'v': i % 7, 'o': i} for i in range(n + 50)]
    tgt = [{'k': 'k%05d' % i, 't': 'x'} for i in (0, 5, n - 1, n + 5)]
    st = mkstate([('src', [('k', 'string'), ('v', 'integer'), ('o', 'integer')], src),
                  ('tgt', [('k', 'string'), ('t', 'string')], tgt)])
    fields = {'v_sum': {'name': 'v', 'aggregate': 'sum'}, 'v_cnt': {'aggregate': 'count'}, 'v_last': {'name': 'v', 'aggregate': 'last'}}
    out = core.materialise(core.from_state(st), core.dataflows.join('src', ['k'], 'tgt', ['k'], copy.deepcopy(fields), mode=mode))
    exp = model_join(src, tgt, 'list', mode, {k: dict(v) for k, v in fields.items()})
    got = out.rows[-1]
    ok = [{k: r.get(k) for k in ('k', 't', 'v_sum', 'v_cnt', 'v_last')} for r in got] == \
         [{k: r.get(k) for k in ('k', 't', 'v_sum', 'v_cnt', 'v_last')} for r in exp]
    return {'n': 1, 'key': core.h(['big', mode]), 'outcome': 'big-ok' if ok else 'big-violated',
            'viol': [] if ok else [('large-index/%s' % mode, 'join over %d distinct keys (on-disk index), mode %s: result differs '
                                    'from the model (%d vs %d rows)' % (n, mode, len(got), len(exp)), {'big': mode})]}


def run(run):
    cs = cases(run.tier)
    e2.run_cases(run, __name__, cs, batch=150)
    for res in run.map(big_case, ['inner', 'half-outer'] + (['full-outer'] if run.tier == 'thorough' else []), chunksize=1, limit=900):
        run.absorb(res)
    run.rule = ('source tables over (key in {a,b,null}) x (value in {1,2,null} | {x,y,null}) with <=2 (thorough: 3) rows, target '
                'tables over key in {a,c,null} with <=2 (thorough: 3) rows, all aggregators requested at once, x mode x key '
                'shape (field list, format string, row number) and, around the base configuration, source_delete, forced '
                'spill (cache of 2 entries), wildcard mapping, de-duplication mode; plus >10240-key runs on the real cache. '
                'non-trivial = source and target non-empty; distinct by (tables, configuration)')
    run.explanation = 'reference model: group source rows by rendered key, fold the documented aggregates over non-null values, emit per mode'


def replay(w):
    if 'big' in w:
        return [(s, what, w) for s, what, _ in big_case(w['big'])['viol']]
    v, _, _ = check(w)
    return [(s, what, w) for s, what in v]
