"""C05 - observers are transparent and capture the complete stream at their position (engine E1)."""
import os
import csv
import copy
import json
import zipfile
import decimal
import itertools

from .. import core, e1
from ..core import S, Env, State, cj, h, enc_rows

LEVEL = 'model_checking'

# ---- suffix alphabet -------------------------------------------------------------------------


@core.builder('c05_islice')
def _b_islice(step, env):
    def first_only(rows):
        yield from itertools.islice(rows, 1)
    return first_only


@core.builder('c05_skip_pkg')
def _b_skip(step, env):
    def skipper(package):
        d = package.pkg.descriptor
        d['resources'] = d['resources'][:1]
        yield package.pkg
        for i, res in enumerate(package):
            if i == 0:
                yield res
    return skipper


@core.builder('c05_checkpoint_steps')
def _b_cp_steps(step, env):
    def passthrough(rows):
        yield from rows
    return core.dataflows.checkpoint('cps%d' % env.pos, checkpoint_path=env.path('checkpoints2'), steps=[passthrough])


@core.builder('c05_tracer')
def _b_tracer(step, env):
    def tracer(rows):
        for r in rows:
            env.log.append(['row', next(env.counter)])
            yield r
    return tracer


@core.fn('c05_fin_cb')
def _fin_cb(env):
    def cb():
        env.log.append(['fin', next(env.counter)])
    return cb


@core.fn('c05_fin_stats_cb')
def _fin_stats_cb(env):
    def cb(stats):
        env.log.append(['finstats', dict(stats)])
    return cb


@core.fn('c05_hdr')
def _hdr(env):
    def f(x, kwargs=None):
        env.log.append(['hdr', str(x)])
    return f


@core.fn('c05_tbl')
def _tbl(env):
    def f(x, kwargs=None):
        env.log.append(['tbl', str(x)])
    return f


DISCARD = {
    'delete_r2': S('delete_resource', 'r2'),
    'delete_r1': S('delete_resource', 'r1'),
    'delete_all': S('delete_resource', None),
    'concatenate': S('concatenate', {'a': []}, {'name': 'cc'}),
    'filter_some': S('filter_rows', equals=[{'a': 1}]),
    'filter_none': S('filter_rows', equals=[{'a': 12345}]),
    'join_delete': S('join', 'r1', ['a'], 'r2', ['a'], {'b': {'aggregate': 'last'}}, source_delete=True, mode='inner'),
    'join_keep': S('join', 'r1', ['a'], 'r2', ['a'], {'b': {'aggregate': 'first'}}, source_delete=False),
    'join_nofields': S('join', 'r1', ['a'], 'r2', ['a'], {}),       # every default: the source is deleted, nothing is copied
    'dedup': {'op': 'flow', 'steps': [S('set_primary_key', ['a']), S('deduplicate')], 'positions': [90, 91]},
    'select_fields': S('select_fields', ['a']),
}
USER_DISCARD = {
    'user_islice': {'op': 'c05_islice'},
    'user_skip_pkg': {'op': 'c05_skip_pkg'},
}
KEEP = {
    'add_field': S('add_field', 'z', 'integer', 7),
    'sort_rows': S('sort_rows', '{a}', reverse=True),
    'rename_fields': S('rename_fields', {'a': 'a2'}),
}
SUFFIX = {}
SUFFIX.update(DISCARD)
SUFFIX.update(USER_DISCARD)
SUFFIX.update(KEEP)

OBSERVERS = {
    'printer': S('printer', num_rows=1000, tablefmt='tsv', disable_numparse=True,
                 header_print={'$fn': 'c05_hdr', 'env': True}, table_print={'$fn': 'c05_tbl', 'env': True}),
    'dump_to_path': S('dump_to_path', {'$path': 'dump'}),
    'dump_to_path_json': S('dump_to_path', {'$path': 'dumpj'}, format='json'),
    'dump_to_zip': S('dump_to_zip', {'$path': 'out.zip'}),
    'stream': S('stream', {'$path': 'st/stream.ndjson'}),
    'checkpoint': {'op': 'checkpoint_first'},
    'finalizer': {'op': 'flow', 'steps': [S('finalizer', {'$fn': 'c05_fin_cb', 'env': True}), {'op': 'c05_tracer'}],
                  'positions': [50, 50]},
    'update_stats': S('update_stats', {'k': 1}),
    # a dumper followed by a finalizer whose callback takes the stats collected so far
    'dump+finalizer_stats': {'op': 'flow', 'steps': [S('dump_to_path', {'$path': 'dumpfs'}), S('update_stats', {'marker': 7}),
                                                      S('finalizer', {'$fn': 'c05_fin_stats_cb', 'env': True})],
                             'positions': [50, 50, 50]},
    'validate': S('validate'),
    # documented counter options must not change what is persisted
    'dump_dotted': S('dump_to_path', {'$path': 'dumpdot'}, counters={'datapackage-rowcount': 'stats.rowcount', 'resource-rowcount': 'stats.rows',
                                                                      'datapackage-bytes': 'stats.bytes'}),
    'dump_nocounters': S('dump_to_path', {'$path': 'dumpnc'}, counters={'datapackage-bytes': None, 'resource-bytes': None,
                                                                        'resource-hash': None}),
    'dump_zip_nocounters_json': S('dump_to_zip', {'$path': 'outnc.zip'}, format='json',
                                  counters={'datapackage-bytes': None, 'resource-bytes': None, 'resource-hash': None,
                                            'datapackage-hash': None}),
    # a checkpoint given an explicit (pass-through) sub-chain of its own
    'checkpoint_steps': {'op': 'c05_checkpoint_steps'},
    # the format follows each resource's own extension; resources with an unknown extension are documented to be left out
    'dump_noforce': S('dump_to_path', {'$path': 'dumpnf'}, force_format=False),
    # two file dumpers of different formats in one pipeline, both seeing the same resources
    'dump_csv+dump_json': {'op': 'flow', 'steps': [S('dump_to_path', {'$path': 'dump2c'}),
                                                    S('dump_to_path', {'$path': 'dump2j'}, format='json')],
                           'positions': [50, 50]},
    'dump_json+dump_zip': {'op': 'flow', 'steps': [S('dump_to_path', {'$path': 'dump3j'}, format='json'),
                                                    S('dump_to_zip', {'$path': 'out3.zip'})],
                           'positions': [50, 50]},
}
OBS_INITIAL_ONLY = {'dump_dotted', 'dump_noforce', 'checkpoint_steps', 'dump_nocounters', 'dump_zip_nocounters_json', 'dump_json+dump_zip'}
OBS_POS = 50

# descriptor properties a file dumper documents as its serialisation additions
RES_DROP = ('encoding', 'format', 'dialect', 'mediatype', 'path', 'profile') + e1.STAT_KEYS
FIELD_DROP = ('decimalChar', 'groupChar', 'format', 'trueValues', 'falseValues')


def norm_desc(desc):
    d = copy.deepcopy(desc)
    for k in tuple(e1.STAT_KEYS) + ('stats',):        # 'stats': where the dump_dotted observer is told to put its counters
        d.pop(k, None)
    for r in d.get('resources', []):
        for k in tuple(RES_DROP) + ('stats',):
            r.pop(k, None)
        for f in r.get('schema', {}).get('fields', []):
            for k in FIELD_DROP:
                f.pop(k, None)
    return d


def numnorm(v):
    if isinstance(v, bool) or v is None:
        return v
    if isinstance(v, (int, float, decimal.Decimal)):
        return {'$num': str(decimal.Decimal(str(v)).normalize())}
    if isinstance(v, list):
        return [numnorm(x) for x in v]
    if isinstance(v, dict):
        return {k: numnorm(x) for k, x in v.items()}
    return core.enc(v)


def rows_norm(rows):
    return [{k: numnorm(v) for k, v in r.items()} for r in rows]


# ---- execution -------------------------------------------------------------------------------
def run_pipeline(prefix_state, steps, positions, decode=None, twice=False):
    """Returns dict(kind, state|exc, log, stats, captured). twice: the same Flow object is executed a second time and
    the second execution is what is reported (log and captures of the first one are discarded)."""
    with core.scratch_dir() as d:
        env = Env(d)
        env.expected_markers = set()
        out = {}
        try:
            links = []
            for s, p in zip([{'op': 'from_state', 'state': prefix_state}] + steps, [0] + positions):
                env.pos = p
                links.append(e1.build_link(s, env))
            flow = core.Flow(*links)
            if twice:
                flow.process()
                del env.log[:]
            ds = flow.datastream()
            rows, tags = [], []
            for res in ds.res_iter:
                tags.append(res.res.name)
                rows.append(list(res))
            out = {'kind': 'ok', 'state': State(copy.deepcopy(ds.dp.descriptor), rows, tags),
                   'stats': ds.merge_stats()}
        except core.CaseTimeout:
            raise
        except Exception as e:
            out = {'kind': 'exc', 'exc': e}
        out['log'] = list(env.log)
        if decode is not None:
            env.pos = OBS_POS
            try:
                out['captured'] = decode(env, out)
            except Exception as e:
                out['captured'] = ('undecodable', '%s: %s' % (type(e).__name__, str(e)[:200]))
        return out


def decode_dump(root, allow_discarded=False, dotted=False):
    """Independent decode (csv/json std modules + tableschema casts driven by the written descriptor only)."""
    import tableschema
    p = os.path.join(root, 'datapackage.json')
    if not os.path.exists(p):
        return ('missing', 'datapackage.json not written')
    desc = json.load(open(p, encoding='utf-8'))
    names, allrows = [], []
    for r in desc['resources']:
        fp = os.path.join(root, r['path'])
        if allow_discarded and 'format' not in r and not os.path.exists(fp):
            continue          # a resource whose extension names no writer: documented as discarded
        if not os.path.exists(fp):
            return ('incomplete', 'descriptor lists %s which was never written' % r['path'])
        mv = r['schema'].get('missingValues', [''])
        fields = {f['name']: tableschema.Field(f, missing_values=mv) for f in r['schema']['fields']}
        rows = []
        if r.get('format') == 'json':
            for item in json.load(open(fp, encoding=r.get('encoding', 'utf-8'))):
                rows.append({k: fields[k].cast_value(v) for k, v in item.items()})
        else:
            with open(fp, encoding=r.get('encoding', 'utf-8'), newline='') as fh:
                d = r.get('dialect', {})
                rd = csv.reader(fh, delimiter=d.get('delimiter', ','), quotechar=d.get('quoteChar', '"'),
                                doublequote=d.get('doubleQuote', True))
                header = next(rd)
                for cells in rd:
                    rows.append({k: fields[k].cast_value(v) for k, v in zip(header, cells)})
        names.append(r['name'])
        allrows.append(rows_norm(rows))
        if 'count_of_rows' in r and r['count_of_rows'] != len(rows):
            return ('incomplete', 'descriptor reports %r rows for %s, the file holds %d' % (r['count_of_rows'], r['name'], len(rows)))
    if dotted:
        # the row counters were configured under nested names: they must be there, and right
        total = (desc.get('stats') or {}).get('rowcount')
        if (total or 0) != sum(len(r) for r in allrows):       # (absent and 0 are the same thing for a package without rows)
            return ('incomplete', 'descriptor reports stats.rowcount=%r, the files hold %d rows' % (total, sum(len(r) for r in allrows)))
        for r, rows in zip(desc['resources'], allrows):
            if ((r.get('stats') or {}).get('rows') or 0) != len(rows):
                return ('incomplete', 'descriptor reports stats.rows=%r for %s, the file holds %d' % ((r.get('stats') or {}).get('rows'), r['name'], len(rows)))
    if not allow_discarded and 'count_of_rows' in desc and desc['count_of_rows'] != sum(len(r) for r in allrows):
        return ('incomplete', 'descriptor reports %r rows in total, the files hold %d' % (desc['count_of_rows'], sum(len(r) for r in allrows)))
    return ('package', names, allrows)


def decode_for(obs):
    def load_back(env, src, **kw):
        st = core.materialise(core.dataflows.load(src, **kw), via='results')
        return ('package', st.names(), [rows_norm(r) for r in st.rows])

    def d_path(env, out, sub='dump'):
        return decode_dump(env.path(sub))

    def d_zip(env, out, name='out.zip'):
        p = env.path(name)
        try:
            z = zipfile.ZipFile(p)
            z.namelist()
        except Exception as e:
            return ('incomplete', 'zip file unreadable: %s' % type(e).__name__)
        target = env.path('unzipped-' + name)
        z.extractall(target)
        return decode_dump(target)

    def d_stream(env, out, rel='st/stream.ndjson'):
        p = env.path(rel)
        if not os.path.exists(p):
            return ('missing', '%s not committed' % os.path.basename(p))
        from dataflows.helpers.extended_json import ejson
        lines = open(p).read().split('\n')
        desc = ejson.loads(lines[0])
        rows, cur = [], []
        for ln in lines[1:]:
            if ln == '':
                rows.append(cur)
                cur = []
            else:
                cur.append(ejson.loads(ln))
        # file ends with '\n' after the last separator: drop the phantom trailing group
        if cur == [] and rows and len(rows) == len(desc['resources']) + 1:
            rows.pop()
        return ('stream', desc, [rows_norm(r) for r in rows])

    def d_printer(env, out):
        hdr = [x[1] for x in out['log'] if x[0] == 'hdr']
        tables = []
        for x in out['log']:
            if x[0] == 'tbl':
                lines = x[1].split('\n')
                data = [ln.split('\t') for ln in lines if ln and ln.split('\t')[0].strip().isdigit()]
                tables.append([[c.strip() for c in row] for row in data])
        return ('printed', hdr, tables)

    def d_fin(env, out):
        fins = [x[1] for x in out['log'] if x[0] == 'fin']
        rows = [x[1] for x in out['log'] if x[0] == 'row']
        return ('fin', fins, max(rows) if rows else -1)

    return {
        'printer': d_printer, 'dump_to_path': d_path, 'dump_to_path_json': lambda e, o: d_path(e, o, 'dumpj'),
        'dump_to_zip': d_zip, 'stream': d_stream,
        'checkpoint': lambda e, o: d_stream(e, o, 'checkpoints/cp%d/stream.ndjson' % OBS_POS),
        'finalizer': d_fin, 'update_stats': lambda e, o: ('stats', o.get('stats')), 'validate': lambda e, o: None,
        'dump+finalizer_stats': lambda e, o: ('finstats', [x[1] for x in o['log'] if x[0] == 'finstats']),
        'dump_nocounters': lambda e, o: d_path(e, o, 'dumpnc'),
        'dump_dotted': lambda e, o: decode_dump(e.path('dumpdot'), dotted=True),
        'dump_noforce': lambda e, o: decode_dump(e.path('dumpnf'), allow_discarded=True),
        'checkpoint_steps': lambda e, o: d_stream(e, o, 'checkpoints2/cps%d/stream.ndjson' % OBS_POS),
        'dump_zip_nocounters_json': lambda e, o: d_zip(e, o, 'outnc.zip'),
        'dump_csv+dump_json': lambda e, o: ('multi', [d_path(e, o, 'dump2c'), d_path(e, o, 'dump2j')]),
        'dump_json+dump_zip': lambda e, o: ('multi', [d_path(e, o, 'dump3j'), d_zip(e, o, 'out3.zip')]),
    }[obs]


def expected_capture(obs, P):
    """What the observer must have captured, from the stepwise state P at its position."""
    if obs in ('dump_to_path', 'dump_to_path_json', 'dump_to_zip', 'dump_csv+dump_json', 'dump_json+dump_zip', 'dump_nocounters', 'dump_dotted',
               'dump_zip_nocounters_json'):
        rs = core.materialise(core.from_state(P), via='results')
        return ('package', P.names(), [rows_norm(r) for r in rs.rows])
    if obs == 'dump_noforce':
        keep = [i for i, r in enumerate(P.desc['resources']) if os.path.splitext(r.get('path', ''))[1] in ('.csv', '.json')]
        rs = core.materialise(core.from_state(P), via='results')
        return ('package', [P.names()[i] for i in keep], [rows_norm(rs.rows[i]) for i in keep])
    if obs in ('stream', 'checkpoint', 'checkpoint_steps'):
        return ('stream', P.desc, [rows_norm(r) for r in P.rows])
    if obs == 'printer':
        tables = []
        for r, rows in zip(P.desc['resources'], P.rows):
            names = [f['name'] for f in r['schema']['fields']]
            tables.append([[str(i + 1)] + [str(row.get(n)) for n in names] for i, row in enumerate(rows)])
        return ('printed', P.names(), tables)
    return None


def check_case(case):
    """case: {'prefix': State-json, 'suffix': [names], 'obs': name, 'pos': int}"""
    prefix = case['prefix'] if isinstance(case['prefix'], State) else State.from_json(case['prefix'])
    suffix, obs, pos = case['suffix'], case['obs'], case['pos']
    sfx = [SUFFIX[s] for s in suffix]
    spos = list(range(1, len(sfx) + 1))
    label = '[%s] with %s at position %d' % (', '.join(suffix), obs, pos)
    viol = []
    base = run_pipeline(prefix, sfx, spos)
    if base['kind'] == 'exc':
        return [], 'rejected', False
    at = run_pipeline(prefix, sfx[:pos], spos[:pos])
    if at['kind'] == 'exc':
        return [], 'rejected', False
    P = at['state']
    steps = sfx[:pos] + [OBSERVERS[obs]] + sfx[pos:]
    positions = spos[:pos] + [OBS_POS] + spos[pos:]
    twice = bool(case.get('twice'))
    if twice:
        label += ', the Flow object executed a second time'
    got = run_pipeline(prefix, steps, positions, decode_for(obs), twice=twice)
    if got['kind'] == 'exc' and twice:
        # a step object that refuses a second execution loudly (a zip archive / stream file opened when the step was
        # built) loses nothing silently: not this property's business
        return [], 'not-reusable', False
    if got['kind'] == 'exc':
        e = got['exc']
        viol.append(('observer-raises', '%s: raises %s: %s' % (label, core.exc_sig(e), str(e)[:120].replace('\n', ' '))))
        return viol, 'raises', True
    # (a) transparency
    a, b = got['state'], base['state']
    d = e1.state_diff(State(norm_desc(a.desc), a.rows), State(norm_desc(b.desc), b.rows))
    if d:
        viol.append(('transparency', '%s: downstream result changed: %s' % (label, d)))
    # (b) completeness
    cap = got.get('captured')
    exp = expected_capture(obs, P)
    caps = cap[1] if (cap and cap[0] == 'multi') else [cap]
    for cap in (caps if exp is not None else []):
        if cap is None or cap[0] in ('missing', 'incomplete', 'undecodable'):
            viol.append(('capture-' + (cap[0] if cap else 'none'), '%s: %s' % (label, cap[1] if cap else 'nothing captured')))
        elif exp[0] == 'stream':
            if cap[1] != exp[1]:
                viol.append(('capture-descriptor', '%s: persisted descriptor differs from the stream\'s at that position' % label))
            elif cap[2] != exp[2]:
                viol.append(('capture-rows', '%s: persisted rows %r, stream at that position %r' %
                             (label, [len(r) for r in cap[2]], [len(r) for r in exp[2]])))
        else:
            if cap[1] != exp[1]:
                viol.append(('capture-resources', '%s: captured resources %r, stream at that position has %r' %
                             (label, cap[1], exp[1])))
            elif cap[2] != exp[2]:
                viol.append(('capture-rows', '%s: captured rows differ from the stream at that position '
                             '(counts %r vs %r)' % (label, [len(r) for r in cap[2]], [len(r) for r in exp[2]])))
    cap = got.get('captured')
    if obs == 'finalizer':
        _, fins, last_row = cap
        if len(fins) != 1:
            viol.append(('finalizer-count', '%s: callback fired %d times' % (label, len(fins))))
        elif fins[0] < last_row:
            viol.append(('finalizer-early', '%s: callback fired before the last row had passed' % label))
    if obs == 'dump+finalizer_stats':
        calls = cap[1]
        total = sum(len(r) for r in P.rows)
        if len(calls) != 1:
            viol.append(('finalizer-count', '%s: stats callback fired %d times' % (label, len(calls))))
        elif calls[0].get('marker') != 7 or (calls[0].get('count_of_rows') or 0) != total:
            viol.append(('finalizer-stats', '%s: the callback received stats %r; the stream at its position has %d rows and '
                         'update_stats(marker=7) precedes it' % (label, calls[0], total)))
    if obs == 'update_stats':
        if (cap[1] or {}).get('k') != 1:
            viol.append(('stats', '%s: stats %r lack the update' % (label, cap[1])))
    nontrivial = any(len(r) for r in P.rows)
    return viol, 'ok' if not viol else 'violated', nontrivial


def signature(oracle, obs, suffix, pos):
    before, after = suffix[:pos], suffix[pos:]
    ab = [s for s in suffix if s in USER_DISCARD]
    if ab:
        # a *user* step that stops pulling its input breaks the stream protocol for everything around it (observers
        # upstream capture a partial stream; with a sequential source the following resource starts inside the
        # abandoned one): one finding per abandoning symbol
        return 'abandoned-upstream/%s' % ab[0]
    if oracle == 'transparency':
        return '%s/%s/%s|%s' % (oracle, obs, '+'.join(before), '+'.join(after))
    return '%s/%s/after[%s]' % (oracle, obs, '+'.join(after))


def run_prefix(task):
    """All suffixes x observers x positions from one prefix state."""
    prefix = State.from_json(task['prefix'])
    out = {'n': 0, 'keys': [], 'outcomes': {}, 'viol': [], 'states': 1, 'transitions': 0, 'traces': 0}
    seen = set()
    for suffix in task['suffixes']:
        for obs in OBSERVERS:
            if obs in OBS_INITIAL_ONLY and not task.get('initial'):
                continue          # option variants of the dumpers / checkpoint: on the initial packages only
            for pos in range(len(suffix) + 1):
                case = {'prefix': prefix, 'suffix': suffix, 'obs': obs, 'pos': pos}
                viol, outcome, nontrivial = check_case(case)
                out['n'] += 1
                out['traces'] += 1
                out['transitions'] += len(suffix) + 1
                out['outcomes'][outcome] = out['outcomes'].get(outcome, 0) + 1
                if nontrivial:
                    out['keys'].append(h([task['pkey'], suffix, obs, pos]))
                for oracle, what in viol:
                    sig = signature(oracle, obs, suffix, pos)
                    if sig in seen:
                        continue
                    seen.add(sig)
                    out['viol'].append((sig, what, {'prefix': task['prefix'], 'suffix': suffix, 'obs': obs, 'pos': pos}))
                if suffix in ([], ['add_field']):
                    # the same Flow object executed again: the observer must capture the second execution as completely
                    case = {'prefix': prefix, 'suffix': suffix, 'obs': obs, 'pos': pos, 'twice': True}
                    viol, outcome, nontrivial = check_case(case)
                    out['n'] += 1
                    out['traces'] += 1
                    out['transitions'] += 2 * (len(suffix) + 1)
                    out['outcomes']['rerun:' + outcome] = out['outcomes'].get('rerun:' + outcome, 0) + 1
                    if nontrivial:
                        out['keys'].append(h([task['pkey'], suffix, obs, pos, 'twice']))
                    for oracle, what in viol:
                        sig = 'rerun-' + signature(oracle, obs, suffix, pos)
                        if sig in seen:
                            continue
                        seen.add(sig)
                        out['viol'].append((sig, what, {'prefix': task['prefix'], 'suffix': suffix, 'obs': obs, 'pos': pos, 'twice': True}))
    out['sample'] = {'prefix_resources': prefix.names(), 'suffixes': task['suffixes'][:3], 'observers': list(OBSERVERS)}
    return out


INITIAL_KEYS = set()


def prefix_states(depth):
    states = {}
    inits = e1.initials()
    frontier = []
    inits = dict(inits)
    inits['P5'] = core.mkstate([('r1', [('a', 'integer'), ('b', 'string')], []),
                                ('r2', [('a', 'integer'), ('c', 'string')], [{'a': 1, 'c': 'p'}, {'a': 3, 'c': 'q'}, {'a': 1, 'c': 'r'}])])
    # resource paths with dots that are not extensions (dated / versioned file names differing only after the first dot)
    p6 = copy.deepcopy(inits['P0'])
    for r, pth in zip(p6.desc['resources'], ('sales.2019.csv', 'sales.2020.csv', 'sales.v1.0')):
        r['path'] = pth
    inits['P6'] = State(p6.desc, p6.rows)
    # the first resource's extension names no writer, the others name different ones
    p7 = copy.deepcopy(inits['P0'])
    for r, pth in zip(p7.desc['resources'], ('r1.tsv', 'r2.json', 'r3.csv')):
        r['path'] = pth
    inits['P7'] = State(p7.desc, p7.rows)
    for name in ('P0', 'P1', 'P5', 'P6', 'P7'):
        st = inits[name]
        states[st.key()] = st
        INITIAL_KEYS.add(st.key())
        if name not in ('P6', 'P7'):          # P6/P7 differ from P0 in their paths only: their successors add nothing
            frontier.append(st)
    for _ in range(depth):
        nxt = []
        for st in frontier:
            for sym in e1.SIGMA_ROW:
                if sym == 'user:package:function':
                    continue
                res, tree, env = e1.execute([{'op': 'from_state', 'state': st}, e1.SYMS[sym]], [0, 1])
                if res[0] == 'ok' and res[1].key() not in states:
                    states[res[1].key()] = res[1]
                    nxt.append(res[1])
        frontier = nxt
    return states


def run(run):
    depth = 1 if run.tier == 'quick' else 2
    with core.quiet():
        states = prefix_states(depth)
    singles = [[s] for s in SUFFIX]
    if run.tier == 'quick':
        pairs = [[a, b] for a in ('delete_r2', 'filter_some', 'join_delete') for b in ('delete_r1', 'concatenate', 'dedup')]
    else:
        pairs = [[a, b] for a in SUFFIX for b in SUFFIX]
    suffixes = [[]] + singles + pairs
    tasks = []
    chunk = 6 if run.tier == 'quick' else 12
    for key, st in states.items():
        for i in range(0, len(suffixes), chunk):
            tasks.append({'pkey': key, 'prefix': st.to_json(), 'suffixes': suffixes[i:i + chunk], 'initial': key in INITIAL_KEYS})
    k = run.seed % len(tasks)
    tasks = tasks[k:] + tasks[:k]
    for res in run.map(run_prefix, tasks, chunksize=1, limit=1800):
        run.absorb(res)
    run.states = len(states)
    run.rule = ('prefix state (reachable in <=%d row-level steps from P0/P1, deduplicated) x downstream suffix '
                '(%d single steps, %d pairs; discarding steps included) x observer (%d kinds) x every insertion '
                'position; non-trivial = the stream at the observer position has at least one row'
                % (depth, len(singles), len(pairs), len(OBSERVERS)))
    run.explanation = ('states = distinct prefix packages; each case executes the real pipeline with and without the '
                       'observer and decodes what the observer persisted (files re-read with load()/ndjson parse, '
                       'printer output parsed, finalizer stamps)')
    run.assumptions.append('descriptor properties a dumper documents as serialisation additions (path suffix, format, '
                           'encoding, dialect, per-field decimalChar/groupChar/format/true-falseValues, counters) are '
                           'not counted as schema changes; rows must be identical')


def replay(w):
    viol, outcome, _ = check_case(w)
    return [(('rerun-' if w.get('twice') else '') + signature(oracle, w['obs'], w['suffix'], w['pos']), what, w) for oracle, what in viol]
