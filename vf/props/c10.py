"""C10 - resource selectors mean the same thing in every processor.

Full product: selector-taking processor x selector form x package (names drawn from {a, ab, a.b, aXb}).
Differential oracle, no hand-written per-processor model: a resource the *specification* selects must look like
the step applied (resources=None) to that resource alone; every other resource must be identical to the run
without the step."""
import re
import copy
import itertools

from .. import core
from ..core import S, Env, run_steps, mkstate, State, cj, enc_rows

LEVEL = 'model_checking'
NAMES = ['a', 'ab', 'a.b', 'aXb']
BASE = {'a': 10, 'ab': 20, 'a.b': 30, 'aXb': 40}


def res_rows(name):
    b = BASE[name]
    return [{'id': b + 3, 's': '3', 'k': 1, 'bad': 1},
            {'id': b + 1, 's': '1', 'k': 1, 'bad': 'x'},
            {'id': b + 2, 's': '2', 'k': 2, 'bad': 2}]


def package(names):
    st = mkstate([(n, [('id', 'integer'), ('s', 'string'), ('k', 'integer'), ('bad', 'integer')], res_rows(n))
                  for n in names])
    for r in st.desc['resources']:
        r['schema']['primaryKey'] = ['k']
    return st


@core.fn('c10_log')
def _mk_logger(env, tag):
    def log(x, kwargs=None):
        env.log.append([tag, str(x)])
    return log


@core.fn('c10_rowfunc')
def _rowfunc(row):
    row['s'] = row['s'] + '!'


@core.fn('c10_bang')
def _bang(v):
    return v + '!' if isinstance(v, str) else v


def _k(sel, **kw):
    if sel != '$omit':
        kw['resources'] = sel
    return kw


# processor -> function(sel) -> DSL step.  Each instance visibly changes every resource it touches.
PROCS = {
    'validate': lambda sel: S('validate', **_k(sel, on_error={'$fn': 'drop'})),
    'deduplicate': lambda sel: S('deduplicate', **_k(sel)),
    'printer': lambda sel: S('printer', **_k(sel, header_print={'$fn': 'c10_log', 'env': True, 'args': ['H']},
                                             table_print={'$fn': 'c10_log', 'env': True, 'args': ['T']})),
    'set_type': lambda sel: S('set_type', 's', **_k(sel, type='integer')),
    # leaves the type alone and rewrites the cells: what it did is visible in the rows even where the schema agrees
    'set_type_transform': lambda sel: S('set_type', 's', **_k(sel, type='string', transform={'$fn': 'c10_bang'})),
    'sort_rows': lambda sel: S('sort_rows', '{id}', **_k(sel)),
    'filter_rows': lambda sel: S('filter_rows', **_k(sel, equals=[{'k': 1}])),
    'unpivot': lambda sel: S('unpivot', [{'name': 's', 'keys': {'key': 's'}}], [{'name': 'key', 'type': 'string'}],
                             {'name': 'val', 'type': 'string'}, **_k(sel)),
    'update_resource': lambda sel: {'op': 'update_resource', 'a': [sel], 'k': {'title': 'T'}},
    'update_schema': lambda sel: {'op': 'update_schema', 'a': [sel], 'k': {'missingValues': ['', 'NA']}},
    'set_primary_key': lambda sel: S('set_primary_key', ['id'], **_k(sel)),
    'parallelize': lambda sel: S('parallelize', {'$fn': 'c10_rowfunc'}, 2, **_k(sel)),
    'add_computed_field': lambda sel: S('add_computed_field', **_k(sel, target='c', operation='constant', with_='X')),
    'find_replace': lambda sel: S('find_replace', [{'name': 's', 'patterns': [{'find': '1', 'replace': 'one'}]}],
                                  **_k(sel)),
    'add_field': lambda sel: S('add_field', 'n', 'string', 'd', **_k(sel)),
    'delete_fields': lambda sel: S('delete_fields', ['s'], **_k(sel)),
    'select_fields': lambda sel: S('select_fields', ['id', 's'], **_k(sel)),
    'rename_fields': lambda sel: S('rename_fields', {'s': 't'}, **_k(sel)),
    # structural ones: custom expectation
    'delete_resource': lambda sel: {'op': 'delete_resource', 'a': [sel]},
    'concatenate': lambda sel: S('concatenate', {'ident': ['id'], 's': []}, {'name': 'concat'}, **_k(sel)),
    'load': None,
    'load_dp': None,            # the same selection applied to a data package on disk
}
core.FUNCS['drop'] = core.dataflows.base.schema_validator.drop
core.FUNCS['clear_'] = core.dataflows.base.schema_validator.clear
UNORDERED = {'parallelize'}

SELECTORS = [
    ('none', None),
    ('name', 'a'), ('name', 'ab'), ('name', 'aXb'),
    ('regex-meta', 'a.b'),          # as a regex: a.b and aXb
    ('regex-star', 'a.*'),
    ('regex-alt', 'a|ab'),          # full match: a, ab only
    ('regex-class', 'a[bX.]*b'),
    ('regex-quant', 'a{1,1}b'),             # a regular expression may contain a comma: selects ab only
    ('regex-commaclass', 'a[,.X]b'),        # selects a.b and aXb
    ('absent', 'zz'),
    ('list1', ['a']), ('list1', ['a.b']),   # list element with a metacharacter: literal
    ('list2', ['a', 'ab']), ('list2', ['aXb', 'a']),
    ('list0', []), ('list-absent', ['zz']),
    ('int', 0), ('int', 1), ('int', -1), ('int', -2),
]


def spec_select(sel, names):
    if sel is None:
        return list(names)
    if isinstance(sel, str):
        return [n for n in names if re.fullmatch(sel, n)]
    if isinstance(sel, list):
        return [n for n in names if n in sel]
    if isinstance(sel, int):
        try:
            return [names[sel]]
        except IndexError:
            return 'reject'
    raise AssertionError(sel)


def packages(tier):
    out = []
    for r in range(1, 5):
        for c in itertools.combinations(NAMES, r):
            out.append(list(c))
    out.append(list(reversed(NAMES)))
    out.append(['ab', 'a'])
    out.append(['aXb', 'a', 'a.b'])
    if tier == 'thorough':
        seen = set(map(tuple, out))
        for r in (2, 3, 4):
            for p in itertools.permutations(NAMES, r):
                if p not in seen:
                    out.append(list(p))
                    seen.add(p)
    return out


def observe(st, log):
    """name -> (resource descriptor, rows, log lines naming it); plus order and package-level remainder."""
    obs = {}
    names = st.names()
    for i, n in enumerate(names):
        obs[n] = {'desc': st.desc['resources'][i], 'rows': enc_rows(st.rows[i]) if i < len(st.rows) else '<no stream>',
                  'log': [x for x in log if x[0] == 'H' and x[1] == n]}
    rest = {k: v for k, v in st.desc.items() if k != 'resources'}
    return names, obs, rest


def norm(o, unordered):
    if unordered and isinstance(o['rows'], list):
        o = dict(o)
        o['rows'] = sorted(o['rows'], key=cj)
    return o


def run_one(proc, sel, names):
    with core.scratch_dir() as d:
        env = Env(d)
        pk = package(names)
        if proc in ('load', 'load_dp'):
            step = {'op': 'c10_load', 'state': pk, 'sel': sel, 'form': proc}
            steps = [step]
        else:
            steps = [{'op': 'from_state', 'state': pk}, PROCS[proc](sel)]
        with core.fake_mp():
            kind, st = run_steps(steps, env)
        if kind == 'exc':
            return 'exc', st, None
        return 'ok', observe(st, env.log), env.log


@core.builder('c10_load')
def _b_load(step, env):
    st = step['state']
    desc = copy.deepcopy(st.desc)
    iters = [iter(copy.deepcopy(r)) for r in st.rows]
    k = {}
    if step['sel'] != '$omit':
        k['resources'] = step['sel']
    if step.get('form') == 'load_dp':
        import os
        out = os.path.join(env.scratch, 'c10dp')
        st = State(copy.deepcopy(st.desc), st.rows)
        for r in st.desc['resources']:
            r['schema'].pop('primaryKey', None)         # (these rows repeat k on purpose; load() would enforce the key)
        core.Flow(core.from_state(st), core.dataflows.set_type('bad', type='string', resources=None, on_error=core.FUNCS['clear_']),
                  core.dataflows.dump_to_path(out)).process()
        return core.dataflows.load(os.path.join(out, 'datapackage.json'), **k)
    return core.dataflows.load((desc, iters), **k)


_restricted_cache = {}


def restricted(proc, name):
    key = (proc, name)
    if key not in _restricted_cache:
        kind, o, _ = run_one(proc, None, [name])
        assert kind == 'ok', (proc, name, o)
        _restricted_cache[key] = o[1][name] if name in o[1] else None
    return _restricted_cache[key]


def check_case(case):
    """case = (proc, names). Loop over all selector forms."""
    proc, names = case
    viol = []
    outcomes = {}
    keys = []
    n = 0
    for selkind, sel in SELECTORS:
        n += 1
        v, outcome, nontrivial = check_one(proc, selkind, sel, names)
        outcomes[outcome] = outcomes.get(outcome, 0) + 1
        if nontrivial:
            keys.append(core.h([proc, sel, names]))
        viol.extend(v)
    return {'n': n, 'keys': keys, 'outcomes': outcomes, 'viol': viol,
            'states': n, 'transitions': n, 'traces': n,
            'sample': {'processor': proc, 'package': names, 'selectors': [s for _, s in SELECTORS][:6]}}


def check_one(proc, selkind, sel, names):
    want = spec_select(sel, names)
    witness = {'proc': proc, 'selkind': selkind, 'sel': sel, 'names': names}
    kind, got, log = run_one(proc, sel, names)
    bkind, base, _ = run_one('validate_noop', None, names) if False else (None, None, None)
    # base run: the package itself
    bnames, bobs, brest = observe(package(names), [])

    def V(oracle, what):
        return [('%s/%s/%s' % (oracle, proc, selkind),
                 '%s(resources=%r) on package %r: %s' % (proc, sel, names, what), witness)]

    if want == 'reject':
        return [], 'index-out-of-range:' + kind, False
    if kind == 'exc':
        e = got
        if len(want) == 0:
            return [], 'rejected-empty-selection', False
        if proc == 'concatenate':
            idx = [names.index(n) for n in want]
            if idx != list(range(idx[0], idx[0] + len(idx))):
                return [], 'rejected-nonconsecutive', False
        return V('crash', 'raises %s: %s' % (core.exc_sig(e), str(e)[:120].replace('\n', ' '))), 'crash', True
    gnames, gobs, grest = got
    unordered = proc in UNORDERED
    nontrivial = 0 < len(want)
    # structural processors ------------------------------------------------------------------
    if proc == 'delete_resource':
        exp_names = [n for n in names if n not in want]
        if gnames != exp_names:
            return V('selection', 'resources after = %r, specified = %r' % (gnames, exp_names)), 'wrong', True
        for n in exp_names:
            if gobs[n] != bobs[n]:
                return V('untouched', 'resource %r changed' % n), 'wrong', True
        return [], 'ok:%d' % len(want), nontrivial
    if proc == 'load_dp':
        if gnames != want:
            return V('selection', 'loaded %r, specified %r' % (gnames, want)), 'wrong', True
        for n in want:
            # (the dump made 'bad' a text column and nulled nothing else: compare the identifying columns)
            if [(core.dec(r)['id'], core.dec(r)['s'], core.dec(r)['k']) for r in gobs[n]['rows']] != [(r['id'], r['s'], r['k']) for r in res_rows(n)]:
                return V('untouched', 'loaded resource %r differs from its source' % n), 'wrong', True
        return [], 'ok:%d' % len(want), nontrivial
    if proc == 'load':
        if gnames != want:
            return V('selection', 'loaded %r, specified %r' % (gnames, want)), 'wrong', True
        for n in want:
            if gobs[n]['rows'] != bobs[n]['rows'] or gobs[n]['desc'] != bobs[n]['desc']:
                return V('untouched', 'loaded resource %r differs from its source' % n), 'wrong', True
        return [], 'ok:%d' % len(want), nontrivial
    if proc == 'concatenate':
        if len(want) == 0:
            # nothing selected: nothing may change (an extra empty target at the end is tolerated as the
            # documented "target" resource only if it has a stream)
            for n in names:
                if n not in gobs or gobs[n] != bobs[n]:
                    return V('untouched', 'resource %r changed although nothing is selected' % n), 'wrong', True
            extra = [n for n in gnames if n not in names]
            for n in extra:
                if gobs[n]['rows'] == '<no stream>':
                    return V('stream', 'target %r declared without a row stream' % n), 'wrong', True
            return [], 'ok:0', False
        first = names.index(want[0])
        exp_names = names[:first] + ['concat'] + [n for n in names[first + len(want):]]
        if gnames != exp_names:
            return V('selection', 'resources after = %r, specified = %r' % (gnames, exp_names)), 'wrong', True
        exp_rows = []
        for n in want:
            exp_rows.extend({'ident': r['id'], 's': r['s']} for r in res_rows(n))
        if gobs['concat']['rows'] != enc_rows(exp_rows):
            return V('selected', 'concatenated rows differ from the selected resources\' rows'), 'wrong', True
        for n in exp_names:
            if n != 'concat' and gobs[n] != bobs[n]:
                return V('untouched', 'resource %r changed' % n), 'wrong', True
        return [], 'ok:%d' % len(want), nontrivial
    # per-resource processors ----------------------------------------------------------------
    if gnames != names:
        return V('order', 'resource list became %r' % gnames), 'wrong', True
    if proc != 'printer' and False:
        pass
    for n in names:
        if n in want:
            exp = restricted(proc, n)
            if norm(gobs[n], unordered) != norm(exp, unordered):
                which = 'overlooked' if norm(gobs[n], unordered) == norm(bobs[n], unordered) else 'different'
                return V('selected-' + which,
                         'selected resource %r is %s' % (n, 'left untouched' if which == 'overlooked'
                                                         else 'not what the step does to it alone')), 'wrong', True
        else:
            if gobs[n] != bobs[n]:
                return V('untouched', 'unselected resource %r changed' % n), 'wrong', True
    if grest != brest:
        return V('package', 'package-level descriptor changed'), 'wrong', True
    return [], 'ok:%d' % len(want), nontrivial


REUSE_PROCS = ['sort_rows', 'filter_rows', 'set_type', 'set_type_transform', 'delete_fields', 'update_resource', 'set_primary_key', 'find_replace',
               'printer', 'deduplicate', 'delete_resource', 'unpivot', 'add_field', 'rename_fields', 'select_fields',
               'update_schema', 'validate']


def check_reuse(case):
    """case = (proc, selkind, sel): the SAME step object runs first on package A, then on package B (other order / other
    members). The second result must equal what a freshly built step gives on B."""
    proc, selkind, sel = case
    A, B = ['a', 'ab', 'a.b'], ['aXb', 'a.b', 'ab', 'a']
    witness = {'reuse': [proc, selkind, sel]}
    out = {'n': 1, 'keys': [core.h(['reuse', proc, sel])], 'outcomes': {}, 'viol': [], 'states': 1, 'transitions': 2, 'traces': 1}
    with core.scratch_dir() as d:
        env = Env(d)
        try:
            step = core.build(PROCS[proc](sel), env)
            with core.fake_mp():
                try:
                    core.materialise(core.from_state(package(A)), step)
                except core.CaseTimeout:
                    raise
                except Exception:
                    pass            # the selector may not apply to the first package at all
                second = core.materialise(core.from_state(package(B)), step)
            got = ('ok', observe(second, []))
        except core.CaseTimeout:
            raise
        except Exception as e:
            got = ('exc', e)
    kind, fresh, _ = run_one(proc, sel, B)
    label = '%s(resources=%r): one step object run on package %r and then on %r' % (proc, sel, A, B)
    if kind != 'ok':
        out['outcomes']['reuse:fresh-rejected'] = 1
        return out
    if got[0] == 'exc':
        out['outcomes']['reuse:raises'] = 1
        out['viol'].append(('reuse-raises/%s' % proc, '%s: the second run raises %s: %s' % (label, core.exc_sig(got[1]), str(got[1])[:100]), witness))
        return out
    gn, gobs, grest = got[1]
    fn_, fobs, frest = fresh
    if gn != fn_ or any(norm(gobs[n], False)['rows'] != norm(fobs[n], False)['rows'] or gobs[n]['desc'] != fobs[n]['desc'] for n in fn_ if n in gobs):
        out['outcomes']['reuse:differs'] = 1
        out['viol'].append(('reuse-differs/%s/%s' % (proc, selkind), '%s: the second run differs from a freshly built step on the second '
                            'package' % label, witness))
    else:
        out['outcomes']['reuse:ok'] = 1
    return out


# ---- selectors behind a step that touched every resource ------------------------------------------------------
# The package a selector is applied to is usually not a pristine source but the output of earlier steps. A step that
# gave *every* resource the same new field (add_field / add_computed_field / unpivot over all resources) must not
# tie the resources together: a later step restricted to one of them must still leave the others alone.
SPREADS = {
    'add_field': (lambda: S('add_field', 'w', 'string', '5'), 'w'),
    'add_field_opts': (lambda: S('add_field', 'w', 'string', '5', title='W', constraints={'required': True}), 'w'),
    'add_computed_field': (lambda: S('add_computed_field', [{'target': {'name': 'w', 'type': 'string'}, 'operation': 'constant',
                                                              'with': '5'}]), 'w'),
    'add_computed_two': (lambda: S('add_computed_field', [{'target': 'w', 'operation': 'constant', 'with': '5'},
                                                           {'target': {'name': 'w2', 'type': 'string'}, 'operation': 'format',
                                                            'with': '{s}'}]), 'w2'),
    'unpivot': (lambda: S('unpivot', [{'name': 's', 'keys': {'key': 's'}}], [{'name': 'key', 'type': 'string'}],
                          {'name': 'val', 'type': 'string'}), 'val'),
    'unpivot_key': (lambda: S('unpivot', [{'name': 's', 'keys': {'key': 's'}}], [{'name': 'key', 'type': 'string'}],
                              {'name': 'val', 'type': 'string'}), 'key'),
    # a copy of a resource is a resource of its own
    'duplicate': (lambda: S('duplicate', 'a'), 's'),
    'duplicate_end': (lambda: S('duplicate', 'ab', 'ab2', 'ab2.csv', duplicate_to_end=True), 's'),
    'set_type_all': (lambda: S('set_type', 's', type='string', constraints={'minLength': 1}, resources=None), 's'),
    'update_schema_all': (lambda: {'op': 'update_schema', 'a': [None], 'k': {'missingValues': ['', 'NA']}}, 's'),
}
CHAIN_PROCS = {
    'set_type': lambda f, sel: S('set_type', f, **_k(sel, type='integer')),
    'set_type_opts': lambda f, sel: S('set_type', f, **_k(sel, type='string', title='changed', constraints={'maxLength': 9})),
    'rename_fields': lambda f, sel: S('rename_fields', {f: 'renamed'}, **_k(sel)),
    'delete_fields': lambda f, sel: S('delete_fields', [f], **_k(sel)),
    'select_fields': lambda f, sel: S('select_fields', ['id', f], **_k(sel)),
    'find_replace': lambda f, sel: S('find_replace', [{'name': f, 'patterns': [{'find': '.', 'replace': '7'}]}], **_k(sel)),
    'update_schema': lambda f, sel: {'op': 'update_schema', 'a': [sel], 'k': {'missingValues': ['-']}},
    'set_primary_key': lambda f, sel: S('set_primary_key', ['id', f], **_k(sel)),
    'add_field': lambda f, sel: S('add_field', 'n', 'string', 'd', **_k(sel)),
    'unpivot': lambda f, sel: S('unpivot', [{'name': f, 'keys': {'k2': f}}], [{'name': 'k2', 'type': 'string'}],
                                {'name': 'v2', 'type': 'string'}, **_k(sel)),
}
CHAIN_SELECTORS = [('name', 'a'), ('name', 'ab'), ('list1', ['a.b']), ('int', 1), ('int', -1), ('list2', ['a', 'ab']), ('regex-star', 'a.+')]
CHAIN_NAMES = ['a', 'ab', 'a.b']


def _run_chain(names, *steps):
    with core.scratch_dir() as d:
        env = Env(d)
        kind, st = run_steps([{'op': 'from_state', 'state': package(names)}] + list(steps), env)
        if kind == 'exc':
            return 'exc', st
        return 'ok', observe(st, env.log)


def check_chain(case):
    spread, proc = case
    mk, field = SPREADS[spread]
    out = {'n': 0, 'keys': [], 'outcomes': {}, 'viol': [], 'states': 0, 'transitions': 0, 'traces': 0,
           'sample': {'spread': spread, 'processor': proc, 'package': CHAIN_NAMES}}
    bkind, base = _run_chain(CHAIN_NAMES, mk())
    assert bkind == 'ok', (spread, base)
    bnames, bobs, brest = base
    alone = {}
    for selkind, sel in CHAIN_SELECTORS:
        want = spec_select(sel, bnames)
        if want == 'reject':
            continue
        witness = {'chain': [spread, proc], 'selkind': selkind, 'sel': sel}
        label = '%s over all resources, then %s(%s, resources=%r) on package %r' % (spread, proc, field, sel, CHAIN_NAMES)
        out['n'] += 1
        out['traces'] += 1
        out['transitions'] += 2
        kind, got = _run_chain(CHAIN_NAMES, mk(), CHAIN_PROCS[proc](field, sel))
        if kind == 'exc':
            # the step must then fail on a selected resource alone as well (else the selector reached further)
            k2, g2 = _run_chain([want[0]] if want and want[0] in CHAIN_NAMES else ['a'], mk(), CHAIN_PROCS[proc](field, None))
            if k2 == 'ok':
                out['viol'].append(('chain-crash/%s/%s' % (spread, proc), '%s: raises %s: %s' % (label, core.exc_sig(got), str(got)[:100]), witness))
            out['outcomes']['chain:rejected'] = out['outcomes'].get('chain:rejected', 0) + 1
            continue
        out['keys'].append(core.h(['chain', spread, proc, sel]))
        out['states'] += 1
        gnames, gobs, grest = got
        bad = None
        if gnames != bnames:
            bad = ('chain-order', 'resource list became %r' % gnames)
        for n in bnames:
            if bad:
                break
            if n in want and n not in CHAIN_NAMES:
                continue              # a copy made by the spreading step: no single-resource reference
            if n in want:
                if n not in alone:
                    k2, g2 = _run_chain([n], mk(), CHAIN_PROCS[proc](field, None))
                    alone[n] = g2[1][n] if k2 == 'ok' else None
                if alone[n] is not None and gobs[n] != alone[n]:
                    bad = ('chain-selected', 'selected resource %r is not what the two steps do to it alone' % n)
            elif gobs[n] != bobs[n]:
                diff = 'descriptor' if gobs[n]['desc'] != bobs[n]['desc'] else 'rows'
                bad = ('chain-untouched', 'the %s of unselected resource %r changed (%r -> %r)' %
                       (diff, n, bobs[n]['desc']['schema'] if diff == 'descriptor' else bobs[n]['rows'],
                        gobs[n]['desc']['schema'] if diff == 'descriptor' else gobs[n]['rows']))
        if bad:
            out['viol'].append(('%s/%s/%s' % (bad[0], spread, proc), '%s: %s' % (label, bad[1][:400]), witness))
            out['outcomes']['chain:wrong'] = out['outcomes'].get('chain:wrong', 0) + 1
        else:
            out['outcomes']['chain:ok'] = out['outcomes'].get('chain:ok', 0) + 1
    uniq, seen = [], set()
    for v in out['viol']:
        if v[0] not in seen:
            seen.add(v[0])
            uniq.append(v)
    out['viol'] = uniq
    return out


# ---- consumers that ask for several resources before reading their rows ------------------------------------------
@core.builder('c10_eager')
def _b_eager(step, env):
    def eager(package):
        yield package.pkg
        res = list(package)          # every resource is requested before any row is read
        for r in (reversed(res) if step.get('reverse') else res):
            pass
        # hand them on in the original order, but read by the consumer only now
        for r in res:
            yield r
    return eager


EAGER_PROCS = ['validate', 'deduplicate', 'set_type', 'sort_rows', 'filter_rows', 'unpivot', 'update_resource', 'update_schema',
               'set_primary_key', 'add_computed_field', 'find_replace', 'add_field', 'delete_fields', 'select_fields',
               'rename_fields', 'printer']
EAGER_SELECTORS = [('none', None), ('name', 'a'), ('name', 'ab'), ('list2', ['a', 'ab']), ('int', 0), ('int', -1), ('regex-star', 'a.+')]


def check_eager(proc):
    """The selection is decided per resource when the resource is handed on, not when its rows happen to be read: a
    downstream step that collects all resources first must see exactly what a sequential consumer sees."""
    names = ['a', 'ab', 'a.b']
    out = {'n': 0, 'keys': [], 'outcomes': {}, 'viol': [], 'states': 0, 'transitions': 0, 'traces': 0,
           'sample': {'processor': proc, 'package': names, 'consumer': 'list(package) before reading rows'}}
    for selkind, sel in EAGER_SELECTORS:
        res = []
        for tail in ([], [{'op': 'c10_eager'}]):
            with core.scratch_dir() as d:
                env = Env(d)
                kind, st = run_steps([{'op': 'from_state', 'state': package(names), 'sequential': False}, PROCS[proc](sel)] + tail, env)
                res.append((kind, observe(st, env.log) if kind == 'ok' else st))
        out['n'] += 1
        out['traces'] += 2
        out['transitions'] += 2
        (k1, seq), (k2, eag) = res
        if k1 != 'ok':
            out['outcomes']['eager:rejected'] = out['outcomes'].get('eager:rejected', 0) + 1
            continue
        out['keys'].append(core.h(['eager', proc, sel]))
        out['states'] += 1
        witness = {'eager': proc, 'selkind': selkind, 'sel': sel}
        label = '%s(resources=%r) on package %r followed by a step that requests every resource before reading rows' % (proc, sel, names)
        if k2 != 'ok':
            out['viol'].append(('eager-raises/%s' % proc, '%s: raises %s: %s' % (label, core.exc_sig(eag), str(eag)[:100]), witness))
            out['outcomes']['eager:raises'] = out['outcomes'].get('eager:raises', 0) + 1
            continue
        bad = [n for n in names if n not in eag[1] or eag[1][n]['rows'] != seq[1][n]['rows'] or eag[1][n]['desc'] != seq[1][n]['desc']]
        if eag[0] != seq[0] or bad:
            out['viol'].append(('eager-differs/%s/%s' % (proc, selkind), '%s: resource(s) %r differ from what a sequential consumer gets'
                                % (label, bad or eag[0]), witness))
            out['outcomes']['eager:differs'] = out['outcomes'].get('eager:differs', 0) + 1
        else:
            out['outcomes']['eager:ok'] = out['outcomes'].get('eager:ok', 0) + 1
    return out


def run(run):
    run.rule = ('full product processor(%d) x selector form(%d) x package(names over {a,ab,a.b,aXb}); a case is '
                'non-trivial when the specified selection is non-empty; distinct by (processor, selector, package)'
                % (len(PROCS), len(SELECTORS)))
    run.explanation = ('explicit enumeration on the real processors; every case is one execution of the real code '
                       '(state = package, transition = the step with that selector); traces_validated = executions')
    run.assumptions.append('parallelize runs on an in-process thread stand-in for multiprocessing in this check '
                           '(its schedules are C18\'s business)')
    pk = packages(run.tier)
    cases = [(p, names) for p in PROCS for names in pk]
    for res in run.map(check_case, cases, chunksize=2):
        run.absorb(res)
    reuse_cases = [(p, k, sel) for p in REUSE_PROCS for k, sel in SELECTORS if k in ('none', 'name', 'regex-star', 'list2', 'int')]
    for res in run.map(check_reuse, reuse_cases, chunksize=4):
        run.absorb(res)
    for res in run.map(check_eager, EAGER_PROCS, chunksize=1):
        run.absorb(res)
    chain_cases = [(sp, p) for sp in SPREADS for p in CHAIN_PROCS]
    for res in run.map(check_chain, chain_cases, chunksize=2):
        run.absorb(res)
    run.extra['chains'] = '%d spreading steps x %d field-level processors x %d selectors' % (len(SPREADS), len(CHAIN_PROCS), len(CHAIN_SELECTORS))
    run.extra['processors'] = sorted(PROCS)
    run.extra['packages'] = len(pk)


def replay(w):
    if 'eager' in w:
        return check_eager(w['eager'])['viol']
    if 'chain' in w:
        return [v for v in check_chain(tuple(w['chain']))['viol']]
    if 'reuse' in w:
        return check_reuse(tuple(w['reuse']))['viol']
    v, outcome, _ = check_one(w['proc'], w['selkind'], w['sel'], w['names'])
    return v
