"""C13 - load reproduces the source table faithfully (E2; independent csv.reader pass over the same bytes)."""
import os
import re
import csv
import copy
import json
import itertools

import tableschema

from .. import core, e2
from ..core import cj, enc, enc_rows

LEVEL = 'exploration'
G9 = ['', 'x', '1', '1.5', ' x ', 'a,b', 'q"q', 'l1\nl2', 'é😀']
G5 = ['', 'x', '1', ' x ', 'q"q,\n']
HEADERS2 = [['a', 'b'], ['a', 'A'], ['a', 'a']]
WS = ' \t\n\r'


def write_csv(path, header, lines, crlf):
    with open(path, 'w', newline='', encoding='utf-8') as f:
        csv.writer(f, lineterminator='\r\n' if crlf else '\n').writerows([header] + lines)


def independent_read(path):
    with open(path, newline='', encoding='utf-8') as f:
        rows = list(csv.reader(f))
    return rows[0], rows[1:]


def dedup_model(headers, case_sensitive):
    keyf = (lambda h: h) if case_sensitive else (lambda h: h.lower())
    total = {}
    for h_ in headers:
        total[keyf(h_)] = total.get(keyf(h_), 0) + 1
    seen, out = {}, []
    for h_ in headers:
        k = keyf(h_)
        if total[k] > 1:
            seen[k] = seen.get(k, 0) + 1
            out.append('%s (%d)' % (h_, seen[k]))
        else:
            out.append(h_)
    return out


def has_dups(headers, case_sensitive):
    ks = [h_ if case_sensitive else h_.lower() for h_ in headers]
    return len(ks) != len(set(ks))


def strip_model(v):
    if v and isinstance(v, str) and (v[0] in WS or v[-1] in WS):
        return v.strip()
    return v


def check_typed_strings(case):
    """cast_strategy='strings' on a source that delivers typed values: every cell comes out as text (str(value))."""
    import decimal
    import datetime
    # (field names in alphabetical order: JSON dumps with another order do not load back at all - C03's recorded finding)
    rows = [{'a_i': 0, 'b_n': decimal.Decimal('0.0'), 'c_b': False, 'd_s': '', 'e_d': datetime.date(2020, 1, 2), 'f_z': None},
            {'a_i': 7, 'b_n': decimal.Decimal('1.50'), 'c_b': True, 'd_s': 'x', 'e_d': None, 'f_z': None},
            {'a_i': None, 'b_n': 0.0, 'c_b': None, 'd_s': '0', 'e_d': datetime.date(1, 1, 1), 'f_z': None}][:case['n']]
    st = core.mkstate([('t', [('a_i', 'integer'), ('b_n', 'number'), ('c_b', 'boolean'), ('d_s', 'string'), ('e_d', 'date'), ('f_z', 'string')], rows)])
    form = case['form']
    label = 'load(%s holding typed rows %r, cast_strategy=strings)' % (form, rows)
    with core.scratch_dir() as d:
        try:
            if form == 'tuple':
                step = core.dataflows.load((copy.deepcopy(st.desc), [iter(copy.deepcopy(r)) for r in st.rows]), cast_strategy='strings')
            else:
                core.Flow(core.from_state(st), core.dataflows.dump_to_path(os.path.join(d, 'pkg'), format=case.get('fmt', 'json'))).process()
                step = core.dataflows.load(os.path.join(d, 'pkg', 'datapackage.json'), cast_strategy='strings')
            out = core.materialise(step, via='results_raw')
        except core.CaseTimeout:
            raise
        except Exception as e:
            return [('typed-strings-raises/%s' % form, '%s raises %s: %s' % (label, core.exc_sig(e), str(e)[:100]))], 'violated', True
    bad = [(k, v) for r in out.rows[0] for k, v in r.items() if not isinstance(v, str)]
    viol = []
    if bad:
        viol.append(('non-string-value/typed-source', '%s: cells %r are not text' % (label, bad[:4])))
    elif form == 'tuple' and [{k: str(v) for k, v in r.items()} for r in rows] != out.rows[0]:
        viol.append(('cell-values/typed-strings', '%s: rows %r' % (label, out.rows[0])))
    return viol, 'ok' if not viol else 'violated', True


def check_long(case):
    """A file longer than the sample load() infers from: what a cell text comes out as may not depend on where in the
    file the cell stands (the same text before and after line 1000 gives the same value), and no line gets lost."""
    n, opts = case['n'], case['opts']
    kw = {}
    if 'cast' in opts:
        kw['cast_strategy'] = opts['cast']
    if 'on_error' in opts:
        kw['on_error'] = {'drop': core.dataflows.base.schema_validator.drop, 'ignore': core.dataflows.base.schema_validator.ignore,
                          'raise': core.dataflows.base.schema_validator.raise_exception}[opts['on_error']]
    if 'strip' in opts:
        kw['strip'] = opts['strip']
    lines = []
    for i in range(n):
        lines.append([' 2020-01-02 ' if i % 2 else '2020-01-03', '   ' if i % 7 == 3 else str(i % 5), ' 7 ' if i % 3 else '8',
                      '\t12:30:00' if i % 4 == 1 else '11:00:00'])
    label = 'load(<csv of %d lines: padded / plain dates, blank / numeric cells, padded integers, padded times>, %s)' % (n, cj(opts))
    with core.scratch_dir() as d:
        path = os.path.join(d, 'long.csv')
        write_csv(path, ['d', 'n', 'p', 't'], lines, False)
        try:
            out = core.materialise(core.dataflows.load(path, **kw), via='results_raw')
        except core.CaseTimeout:
            raise
        except Exception as e:
            return [('long-file-raises', '%s raises %s: %s' % (label, core.exc_sig(e), str(e)[:120].replace('\n', ' ')))], 'violated', True
    rows = out.rows[0]
    if len(rows) != n:
        return [('long-file-rows', '%s: %d rows come out' % (label, len(rows)))], 'violated', True
    viol = []
    for c, name in enumerate(['d', 'n', 'p', 't']):
        seen = {}
        for i, (line, r) in enumerate(zip(lines, rows)):
            v = (type(r[name]).__name__, repr(r[name]))
            if line[c] in seen and seen[line[c]][1] != v:
                viol.append(('position-dependent/%s' % name, '%s: the cell text %r of column %s comes out as %s in line %d and as %s in '
                             'line %d' % (label, line[c], name, seen[line[c]][1][1], seen[line[c]][0] + 2, v[1], i + 2)))
                break
            seen.setdefault(line[c], (i, v))
    return viol, 'ok' if not viol else 'violated', True


def check(case):
    if case.get('kind') == 'long':
        return check_long(case)
    if case.get('kind') == 'typed_strings':
        return check_typed_strings(case)
    if case.get('kind') == 'package':
        return check_package(case)
    header, lines, crlf, cfg = case['header'], case['lines'], case['crlf'], case['cfg']
    load = core.dataflows.load
    sv = core.dataflows.base.schema_validator
    kw = {}
    if cfg.get('infer'):
        kw['infer_strategy'] = cfg['infer']
    if cfg.get('cast'):
        kw['cast_strategy'] = cfg['cast']
    if 'strip' in cfg:
        kw['strip'] = cfg['strip']
    if cfg.get('limit') is not None:
        kw['limit_rows'] = cfg['limit']
    if cfg.get('dedup'):
        kw['deduplicate_headers'] = True
        kw['deduplicate_headers_case_sensitive'] = cfg.get('dedup_cs', True)
    if cfg.get('name'):
        kw['name'] = cfg['name']
    if cfg.get('override_int'):
        kw['override_fields'] = {header[0]: {'type': 'integer'}}
    if cfg.get('override_dates'):
        # two columns of the same type whose formats differ: the same cell text means different values
        kw['override_fields'] = {header[0]: {'type': 'date', 'format': '%d/%m/%Y'}, header[1]: {'type': 'date', 'format': '%m/%d/%Y'}}
    if cfg.get('on_error'):
        kw['on_error'] = {'raise': sv.raise_exception, 'drop': sv.drop, 'ignore': sv.ignore, 'clear': sv.clear}[cfg['on_error']]
    label = 'load(csv %r + %d lines%s, %s)' % (header, len(lines), ' CRLF' if crlf else '', cj(cfg))
    with core.scratch_dir() as d:
        path = os.path.join(d, 'data.csv')
        write_csv(path, header, lines, crlf)
        rheader, rlines = independent_read(path)
        assert rheader == header and rlines == [list(x) for x in lines], (rheader, rlines)
        try:
            res, dp, _ = core.Flow(load(path, **kw)).results(on_error=None)
            got = ('ok', res, dp.descriptor)
        except core.CaseTimeout:
            raise
        except Exception as e:
            got = ('exc', e)
    cs = cfg.get('dedup_cs', True)
    dups = has_dups(header, cs if cfg.get('dedup') else True)
    viol = []
    if dups and not cfg.get('dedup'):
        if got[0] == 'ok':
            viol.append(('duplicate-headers-accepted', '%s: duplicate headers were accepted without de-duplication' % label))
        return viol, 'rejected-duplicate-headers' if not viol else 'violated', True
    names = dedup_model(header, cs) if cfg.get('dedup') else list(header)
    # expected raw rows
    exp = [dict(zip(names, cells)) for cells in rlines]
    if cfg.get('limit'):
        exp_limited = exp[:cfg['limit']]
    else:
        exp_limited = exp
    if got[0] == 'exc':
        e = got[1]
        c = getattr(e, 'cause', None)
        if cfg.get('cast') == 'schema' and cfg.get('on_error', 'raise') == 'raise' and isinstance(c, core.dataflows.ValidationError):
            # legitimate only if some cell of the overridden field cannot be cast
            bad = [i for i, r in enumerate(exp_limited) if cfg.get('override_int') and not castable_int(r[names[0]])]
            if bad and c.index == bad[0]:
                return [], 'raised-as-policy', True
            viol.append(('raise-unexpected', '%s: ValidationError at index %r; first uncastable row: %r' % (label, c.index, bad[:1])))
            return viol, 'violated', True
        viol.append(('raises', '%s raises %s: %s' % (label, core.exc_sig(e), str(e)[:120].replace('\n', ' '))))
        return viol, 'violated', True
    _, res, desc = got
    r = desc['resources'][0]
    fields = r['schema']['fields']
    if [f['name'] for f in fields] != names:
        viol.append(('field-names', '%s: field names %r, header gives %r' % (label, [f['name'] for f in fields], names)))
        return viol, 'violated', True
    exp_name = cfg.get('name') or 'data'
    if r['name'] != exp_name:
        viol.append(('resource-name', '%s: resource named %r, expected %r' % (label, r['name'], exp_name)))
    if cfg.get('infer') == 'strings' and any(f['type'] != 'string' for f in fields):
        viol.append(('infer-strings', '%s: INFER_STRINGS produced types %r' % (label, [f['type'] for f in fields])))
    # expected values
    mv = r['schema'].get('missingValues', [''])
    fobj = {f['name']: tableschema.Field(f, missing_values=mv) for f in fields}
    policy = cfg.get('on_error', 'raise')
    out_rows = []
    for row in exp_limited if cfg.get('cast') != 'schema' else exp:
        if cfg.get('cast') == 'schema' and cfg.get('limit') and len(out_rows) >= cfg['limit']:
            break          # the limiter sits after the caster: it stops pulling once n rows have survived the policy
        nr, keep = {}, True
        for k, v in row.items():
            if cfg.get('cast') == 'schema':
                try:
                    v = fobj[k].cast_value(v)
                except tableschema.exceptions.CastError:
                    if policy == 'raise':
                        viol.append(('raise-missing', '%s: an uncastable cell %r did not raise' % (label, v)))
                    elif policy == 'drop':
                        keep = False
                    elif policy == 'clear':
                        v = None
            elif cfg.get('cast') == 'strings':
                v = str(v)
            if cfg.get('strip', True):
                v = strip_model(v)
            nr[k] = v
        if keep:
            out_rows.append(nr)
    if cfg.get('cast') == 'schema' and cfg.get('limit'):
        # the limiter counts rows after the caster: the first n rows that survive the policy
        out_rows = out_rows[:cfg['limit']]
    g = res[0]
    if [{k: (type(v).__name__, enc(v)) for k, v in x.items()} for x in g] != \
            [{k: (type(v).__name__, enc(v)) for k, v in x.items()} for x in out_rows]:
        if len(g) != len(out_rows):
            oracle = 'row-count' + ('/limit' if cfg.get('limit') else '')
        elif cfg.get('cast') == 'strings' and any(not isinstance(v, str) for x in g for v in x.values()):
            oracle = 'non-string-value'
        elif cfg.get('strip', True) and [{k: (v.strip() if isinstance(v, str) else v) for k, v in x.items()} for x in g] == \
                [{k: (v.strip() if isinstance(v, str) else v) for k, v in x.items()} for x in out_rows]:
            oracle = 'strip'
        elif not cfg.get('strip', True) and len(g) == len(out_rows) and all(
                a.keys() == b.keys() and all(a[k] == b[k] or (isinstance(b[k], str) and a[k] == b[k].lstrip(' ')) for k in a)
                for a, b in zip(g, out_rows)):
            oracle = 'initial-space-skipped'
        else:
            oracle = 'cell-values/%s' % (cfg.get('cast') or 'nothing')
        viol.append((oracle, '%s: rows %r, the file holds %r' % (label, g, out_rows)))
    return viol, 'ok' if not viol else 'violated', len(lines) > 0


def castable_int(v):
    try:
        tableschema.Field({'name': 'x', 'type': 'integer'}, missing_values=['']).cast_value(v)
        return True
    except tableschema.exceptions.CastError:
        return False


def check_package(case):
    """Loading from a data package on disk / a (descriptor, iterators) pair selects exactly the requested resources."""
    from . import c10
    names, sel, form = case['names'], case['sel'], case['form']
    st = c10.package(names)
    for r in st.desc['resources']:
        r['schema'].pop('primaryKey', None)      # c10's rows repeat k on purpose
    label = 'load(%s with resources %r, resources=%r%s)' % (form, names, sel, ', limit_rows=%d' % case['limit'] if case.get('limit') else '')
    want = c10.spec_select(sel, names)
    with core.scratch_dir() as d:
        try:
            kw = {'limit_rows': case['limit']} if case.get('limit') else {}
            if form == 'tuple':
                step = core.dataflows.load((copy.deepcopy(st.desc), [iter(copy.deepcopy(r)) for r in st.rows]), resources=sel, **kw)
            else:
                core.Flow(core.from_state(st), core.dataflows.set_type('bad', type='string', resources=None, on_error=core.dataflows.base.schema_validator.clear),
                          core.dataflows.dump_to_path(os.path.join(d, 'pkg'))).process()
                step = core.dataflows.load(os.path.join(d, 'pkg', 'datapackage.json'), resources=sel, **kw)
            out = core.materialise(step, via='results_raw')
            got = ('ok', out)
        except core.CaseTimeout:
            raise
        except Exception as e:
            got = ('exc', e)
    if want == 'reject':
        return [], 'index-out-of-range', False
    if got[0] == 'exc':
        if not want:
            return [], 'rejected-empty', False
        return [('package-raises/%s' % form, '%s raises %s: %s' % (label, core.exc_sig(got[1]), str(got[1])[:100]))], 'violated', True
    out = got[1]
    viol = []
    if out.names() != want:
        viol.append(('package-selection/%s' % form, '%s: loaded %r, requested %r' % (label, out.names(), want)))
    else:
        for n, rows in zip(out.names(), out.rows):
            exp_ids = [r['id'] for r in c10.res_rows(n)]
            if case.get('limit'):
                exp_ids = exp_ids[:case['limit']]        # limit_rows applies to every loaded resource
            if [r['id'] for r in rows] != exp_ids:
                viol.append(('package-rows/%s' % form, '%s: rows of %r differ' % (label, n)))
                break
    return viol, 'ok' if not viol else 'violated', bool(want)


def configs(tier):
    out = []
    for infer in (None, 'strings', 'pytypes'):
        for cast in (None, 'strings', 'schema'):
            for strip in (True, False):
                out.append({'infer': infer, 'cast': cast, 'strip': strip})
    for limit in (1, 2):
        out.append({'limit': limit})
        out.append({'limit': limit, 'cast': 'schema', 'strip': False})
    for pol in ('raise', 'drop', 'ignore', 'clear'):
        for strip in (True, False):
            out.append({'cast': 'schema', 'override_int': True, 'on_error': pol, 'strip': strip})
        out.append({'cast': 'schema', 'override_int': True, 'on_error': pol, 'limit': 1})
    out.append({'dedup': True})
    out.append({'dedup': True, 'dedup_cs': False})
    out.append({'name': 'nm'})
    out.append({'name': 'nm', 'dedup': True, 'infer': 'strings', 'cast': 'strings', 'limit': 2})
    return out


def files(tier):
    out = []
    for n in (0, 1, 2):
        for t in itertools.product(G9, repeat=n):
            out.append((['a'], [[c] for c in t]))
    for hdr in HEADERS2:
        for t in itertools.product(G5, repeat=2):
            out.append((hdr, [list(t)]))
    out.append((['a', 'A', 'a'], [['1', '2', '3']]))
    out.append((['a', 'a', 'a', 'b'], [['1', '2', '3', '4']]))
    if tier == 'thorough':
        for hdr in HEADERS2:
            for t in itertools.product(itertools.product(G5, repeat=2), repeat=2):
                out.append((hdr, [list(x) for x in t]))
        for t in itertools.product(G5, repeat=3):
            out.append((['a'], [[c] for c in t]))
    return out


def cases(tier):
    out = []
    cfgs = configs(tier)
    for header, lines in files(tier):
        for crlf in (False, True):
            for cfg in cfgs:
                if len(header) == 1 and (cfg.get('dedup') and not cfg.get('name')):
                    continue
                if crlf and tier == 'quick' and cfg.get('infer') == 'pytypes':
                    continue
                out.append({'header': header, 'lines': lines, 'crlf': crlf, 'cfg': cfg})
    dates = ['01/02/2020', '03/04/2021', '12/11/2020']
    for n in (1, 2):
        for t in itertools.product(itertools.product(dates, repeat=2), repeat=n):
            for strip in (True, False):
                out.append({'header': ['d1', 'd2'], 'lines': [list(x) for x in t], 'crlf': False,
                            'cfg': {'cast': 'schema', 'override_dates': True, 'strip': strip}})
    for n in (1, 2, 3):
        out.append({'kind': 'typed_strings', 'form': 'tuple', 'n': n})
        for fmt in ('json', 'csv'):
            out.append({'kind': 'typed_strings', 'form': 'datapackage.json', 'fmt': fmt, 'n': n})
    for n in (5, 1003, 2100):
        for opts in ({}, {'cast': 'schema'}, {'cast': 'schema', 'on_error': 'drop'}, {'cast': 'schema', 'on_error': 'ignore'},
                     {'cast': 'schema', 'strip': False}, {'cast': 'strings'}):
            out.append({'kind': 'long', 'n': n, 'opts': opts})
    from . import c10
    for names in (['a', 'ab', 'a.b'], ['aXb', 'a.b', 'a'], ['a']):
        for _, sel in c10.SELECTORS:
            for form in ('tuple', 'datapackage.json'):
                out.append({'kind': 'package', 'names': names, 'sel': sel, 'form': form})
                if sel is None or isinstance(sel, list) or sel == 'a.*':
                    for lim in (1, 2):
                        out.append({'kind': 'package', 'names': names, 'sel': sel, 'form': form, 'limit': lim})
    return out


def run(run):
    cs = cases(run.tier)
    e2.run_cases(run, __name__, cs, batch=150)
    run.rule = ('CSV files written byte-for-byte by the harness: every 1-column file with <=2 lines over 9 cell texts (empty, '
                'numeric-looking, padded, delimiter, quote, newline, non-BMP) and every 2-column 1-line file over 5 cell texts x '
                '3 header pairs (distinct, case-variant, duplicate) [thorough: 2-line 2-column and 3-line 1-column files], LF and '
                'CRLF, x %d option combinations (infer_strategy x cast_strategy x strip, limit_rows, schema casting with an integer '
                'override under the 4 on_error policies, header de-duplication case-(in)sensitive, name); plus resource selection '
                'from a data package on disk and a (descriptor, iterators) pair under every selector form of C10. non-trivial = '
                'the file has data lines' % len(configs(run.tier)))
    run.explanation = ('oracle: an independent csv.reader pass over the same bytes; cells compared with their Python type; schema '
                       'casting compared with tableschema.Field.cast_value on the field descriptors load() itself emitted')


def replay(w):
    v, _, _ = check(w)
    return [(s, what, w) for s, what in v]
