"""C18 - parallelize delivers every row exactly once under every schedule (E3 schedule explorer)."""
import sys
import time
import itertools

from .. import core, sched
from ..core import cj, h

LEVEL = 'model_checking'


def rowfunc(row):
    if row.get('boom'):
        raise ValueError('row function fails for row %d' % row['i'])
    if row.get('wipe'):
        row.clear()          # e.g. a function dropping null-valued keys that meets an all-null row: the row is now {}
        return
    row['n'] += 1


def module_state(m):
    """Mutable module-level data of parallelize.py is part of the explored state (so that state merging stays sound
    if a change hoists thread-local data to module scope)."""
    import types
    out = []
    for k, v in sorted(vars(m).items()):
        if k.startswith('__') or k in ('mp', 'threading', 'queue'):
            continue
        if isinstance(v, (types.ModuleType, types.FunctionType, type)) or callable(v):
            continue
        try:
            out.append((k, repr(v)))
        except Exception:
            out.append((k, '?'))
    return tuple(out)


def execute(cfg, prefix, on_point=None, line=False, seam='fork'):
    """One execution of the real parallelize code under the given choice prefix."""
    m = core.mod('dataflows.processors.parallelize')
    N, R, mask = cfg['N'], cfg['R'], cfg['mask']
    s = sched.Sched(prefix, on_point, line_module=m.__file__ if line else None)
    s.extra_state = lambda: module_state(m)
    s.model_feeder = bool(cfg.get('feeder'))
    # substitute whichever concurrency modules parallelize.py refers to (a refactoring may drop or rename an import)
    subst = {'mp': s.mp_mod, 'multiprocessing': s.mp_mod, 'threading': s.threading_mod, 'queue': s.queue_mod}
    saved = {name: getattr(m, name) for name in subst if hasattr(m, name)}
    for name in saved:
        setattr(m, name, subst[name]())
    full = (1 << R) - 1

    def pred(row):
        if cfg.get('truthy'):
            # a predicate answering with truthy / falsy values that are not bools (a url string, id % 2)
            return 'selected' if mask >> row['i'] & 1 else 0
        return bool(mask >> row['i'] & 1)
    predicate = None if (mask == full and cfg.get('nopred')) else pred
    try:
        def upstream(rows):
            # the upstream iterator is the environment: it may take arbitrarily long to produce its next row
            for r in rows:
                if cfg.get('slow_upstream'):
                    s.env_wait()
                yield r
            if cfg.get('slow_upstream'):
                s.env_wait()

        rf = rowfunc
        if cfg.get('slow_rowfunc'):
            # the row function may take arbitrarily long for some rows (an environment wait inside the worker)
            def rf(row):
                if cfg['slow_rowfunc'] >> row['i'] & 1:
                    s.env_wait()
                rowfunc(row)

        def body(s):
            rows = [{'i': k, 'n': 0} for k in range(R)]
            for k in range(R):
                if cfg.get('boom', 0) >> k & 1:
                    rows[k]['boom'] = True
                if cfg.get('wipe', 0) >> k & 1:
                    rows[k]['wipe'] = True
            out = []
            if seam == 'fork':
                for r in m.fork(upstream(rows), rf, N, predicate):
                    out.append(r)
                    s.delivered.append(r.get('i', -1))
            elif seam == 'chain2':
                # two parallelize stages alive at the same time (two producers, two fetchers, 2N workers)
                for r in m.fork(m.fork(iter(rows), rowfunc, N, predicate), rowfunc2, N, predicate):
                    out.append(r)
            else:
                res = core.Flow(rows, core.dataflows.parallelize(rowfunc, N, predicate=predicate)).results()
                out = res[0][0] if res[0] else []
            return out
        result, exc, deadlock = s.run(body)
        if isinstance(exc, core.CaseTimeout):
            # the task's time limit expired while the code under test was running: a budget event, not an observation
            raise exc
    finally:
        for name, val in saved.items():
            setattr(m, name, val)
    return s, result, exc, deadlock


def rowfunc2(row):
    row['n'] += 10


def expected(cfg, seam='fork'):
    per = 11 if seam == 'chain2' else 1
    out = []
    for k in range(cfg['R']):
        r = {'i': k, 'n': per if cfg['mask'] >> k & 1 else 0}
        if cfg.get('boom', 0) >> k & 1:
            r['boom'] = True
            if cfg['mask'] >> k & 1:
                r['n'] = 0          # the function raised before touching the row: delivered once, unprocessed
        if cfg.get('wipe', 0) >> k & 1:
            r['wipe'] = True
            if cfg['mask'] >> k & 1:
                r = {}              # emptied by the row function: still a row, still delivered exactly once
        out.append(r)
    return sorted(out, key=lambda r: r.get('i', -1))


def judge(cfg, s, result, exc, deadlock, seam='fork'):
    """Oracle for one maximal schedule. Returns list of (oracle, what)."""
    v = []
    if s.divergence:
        return [('harness-divergence', s.divergence)]
    if deadlock is not None:
        v.append(('deadlock', 'no thread can move: %r' % (deadlock,)))
        return v
    if exc is not None:
        v.append(('raises', 'fork raised %s: %s' % (type(exc).__name__, str(exc)[:100])))
        return v
    got = sorted(result, key=lambda r: r.get('i', -1))
    if got != expected(cfg, seam):
        v.append(('delivery', 'delivered %r, expected (in any order) %r' % (result, expected(cfg, seam))))
    if s.timeouts_fired:
        v.append(('needs-timeout', 'a worker was still running when joined: the 10 s grace period had to expire'))
    unfinished = [t.name for t in s.threads if t.started and not t.finished and not t.daemon]
    if unfinished:
        v.append(('leak', 'threads/processes never finished: %r' % unfinished))
    errs = [t for t in s.threads if t.exc is not None]
    if errs:
        v.append(('thread-error', '%s died with %s: %s' % (errs[0].name, type(errs[0].exc).__name__, str(errs[0].exc)[:80])))
    return v


def dup_invariant(s):
    """No row id may be present twice among the queues and the delivered rows."""
    ids = list(s.delivered)
    for q in s.queues:
        for r in q.peek_rows():
            if isinstance(r, dict) and 'i' in r:
                ids.append(r.get('i', -1))
    return len(ids) != len(set(ids))


def explore_stateful(cfg, max_exec=None, seam='fork'):
    """Mode 1: DFS with re-execution and state merging (workers sorted)."""
    seen = set()
    stack = [[]]
    st = {'exec': 0, 'maximal': 0, 'transitions': 0, 'orders': set(), 'viol': [], 'capped': False, 'maxdepth': 0}
    while stack:
        if max_exec and st['exec'] >= max_exec:
            st['capped'] = True
            break
        prefix = stack.pop()
        dupflag = []

        def on_point(s, en, i, running_enabled, prefix=prefix):
            if i < len(prefix):
                return
            if dup_invariant(s):
                dupflag.append(i)
            k = s.state_key()
            if k in seen:
                raise sched.Pruned()
            seen.add(k)
            st['transitions'] += len(en)
            base = prefix + [0] * (i - len(prefix))
            for alt in range(1, len(en)):
                stack.append(base + [alt])
        s, result, exc, deadlock = execute(cfg, prefix, on_point, seam=seam)
        st['exec'] += 1
        st['maxdepth'] = max(st['maxdepth'], len(s.trace))
        if dupflag:
            st['viol'].append(('duplicate-in-flight', 'a row id is present twice among queues/delivered rows',
                               [t[1] for t in s.trace[:dupflag[0]]]))
        if s.pruned:
            continue
        st['maximal'] += 1
        if result is not None:
            st['orders'].add(tuple(r.get('i', -1) for r in result))
        for oracle, what in judge(cfg, s, result, exc, deadlock, seam):
            st['viol'].append((oracle, what, [t[1] for t in s.trace]))
    st['states'] = len(seen)
    return st


def explore_bounded(cfg, bound, max_exec=None, line=False, seam='fork', cost_kind='preemption'):
    """Mode 2/3: stateless, all schedules with <= bound preemptions (CHESS) or <= bound deviations from the
    default schedule (cost_kind='deviation': every non-default choice counts, also the free ones)."""
    stack = [[]]
    st = {'exec': 0, 'maximal': 0, 'transitions': 0, 'orders': set(), 'viol': [], 'capped': False, 'maxdepth': 0,
          'states': 0}
    while stack:
        if max_exec and st['exec'] >= max_exec:
            st['capped'] = True
            break
        prefix = stack.pop()
        dupflag = []

        def on_point(s, en, i, running_enabled):
            if not dupflag and dup_invariant(s):
                dupflag.append(i)
        s, result, exc, deadlock = execute(cfg, prefix, on_point, line=line, seam=seam)
        st['exec'] += 1
        st['maximal'] += 1
        st['transitions'] += len(s.trace)
        st['maxdepth'] = max(st['maxdepth'], len(s.trace))
        if result is not None:
            st['orders'].add(tuple(r.get('i', -1) for r in result))
        if dupflag:
            st['viol'].append(('duplicate-in-flight', 'a row id is present twice among queues/delivered rows',
                               [t[1] for t in s.trace[:dupflag[0]]]))
        for oracle, what in judge(cfg, s, result, exc, deadlock, seam):
            st['viol'].append((oracle, what, [t[1] for t in s.trace]))
        choices = [t[1] for t in s.trace]
        for i in range(len(prefix), len(s.trace)):
            n_en, idx, running_enabled, pre_after = s.trace[i]
            if cost_kind == 'deviation':
                cost = sum(1 for c in choices[:i] if c) + 1
            else:
                cost = pre_after + (1 if running_enabled else 0)
            if cost > bound:
                continue
            for alt in range(1, n_en):
                stack.append(choices[:i] + [alt])
    return st


def run_task(task):
    cfg, mode = task['cfg'], task['mode']
    t0 = time.time()
    if mode == 'stateful':
        st = explore_stateful(cfg, task.get('max_exec'), seam=task.get('seam', 'fork'))
    elif mode == 'bounded':
        st = explore_bounded(cfg, task['bound'], task.get('max_exec'), seam=task.get('seam', 'fork'))
    elif mode == 'deviation':
        st = explore_bounded(cfg, task['bound'], task.get('max_exec'), seam=task.get('seam', 'fork'), cost_kind='deviation')
    elif mode == 'line':
        st = explore_bounded(cfg, task['bound'], task.get('max_exec'), line=True, seam=task.get('seam', 'fork'))
    else:   # 'line-dev': line-level scheduling points, bounded number of deviations from the default schedule
        st = explore_bounded(cfg, task['bound'], task.get('max_exec'), line=True, seam=task.get('seam', 'fork'),
                             cost_kind='deviation')
    viol, seen = [], set()
    for oracle, what, choices in st['viol']:
        sig = '%s/%s' % (oracle, mode)
        if sig not in seen:
            seen.add(sig)
            viol.append((sig, 'N=%d R=%d predicate mask=%s [%s]: %s (schedule of %d choices)' %
                         (cfg['N'], cfg['R'], bin(cfg['mask']), mode, what, len(choices)),
                         {'cfg': cfg, 'mode': mode, 'choices': choices, 'seam': task.get('seam', 'fork')}))
    return {'n': st['exec'], 'keys': [h([cfg, mode, task.get('bound'), task.get('seam')])], 'outcomes': {mode: st['maximal']},
            'viol': viol, 'states': st['states'], 'transitions': st['transitions'], 'traces': st['maximal'],
            'summary': {'cfg': cfg, 'mode': mode, 'bound': task.get('bound'), 'seam': task.get('seam', 'fork'),
                        'executions': st['exec'], 'maximal_schedules': st['maximal'], 'states': st['states'],
                        'delivery_orders': len(st['orders']), 'max_depth': st['maxdepth'], 'capped': st['capped'],
                        'wall_s': round(time.time() - t0, 1)}}


FREE_SCRIPT = r'''
import sys, json, os
sys.path.insert(0, sys.argv[1])
from dataflows import Flow, parallelize
N, R, mask = int(sys.argv[2]), int(sys.argv[3]), int(sys.argv[4])
def f(row):
    row['n'] += 1
def pred(row):
    return bool(mask >> row['i'] & 1)
rows = [{'i': k, 'n': 0} for k in range(R)]
res = Flow(rows, parallelize(f, N, predicate=pred)).results()[0]
out = sorted(res[0], key=lambda r: r['i']) if res else []
sys.stdout.write(json.dumps(out)); sys.stdout.flush()
os._exit(0)
'''


def free_run(cfg):
    """One free-running execution with the real multiprocessing/threading primitives, in its own session, output to a
    file, hard kill after the horizon (a hang is a verdict, not a harness error)."""
    import os, json, signal, subprocess, tempfile
    with core.scratch_dir() as d:
        script = os.path.join(d, 'free.py')
        open(script, 'w').write(FREE_SCRIPT)
        outp = os.path.join(d, 'out.txt')
        with open(outp, 'w') as fo, open(os.path.join(d, 'err.txt'), 'w') as fe:
            p = subprocess.Popen([sys.executable, script, core.REPO, str(cfg['N']), str(cfg['R']), str(cfg['mask'])],
                                 stdout=fo, stderr=fe, start_new_session=True, cwd=d)
            try:
                rc = p.wait(timeout=120)
                hung = False
            except subprocess.TimeoutExpired:
                hung, rc = True, None
            try:
                os.killpg(p.pid, signal.SIGKILL)
            except Exception:
                pass
        txt = open(outp).read()
    viol = []
    label = 'real multiprocessing, N=%d R=%d mask=%s' % (cfg['N'], cfg['R'], bin(cfg['mask']))
    if hung and not cfg.get('_retry'):
        # a genuine deadlock hangs every time; a starved machine does not
        return free_run(dict(cfg, _retry=True))
    if hung:
        viol.append(('free-run-hang', '%s: did not terminate within 120 s (twice)' % label, {'free': cfg}))
    else:
        try:
            got = json.loads(txt)
        except Exception:
            got = None
        if got != expected(cfg):
            viol.append(('free-run-delivery', '%s: delivered %r, expected %r' % (label, got, expected(cfg)), {'free': cfg}))
    return {'n': 1, 'key': h(['free', cfg]), 'outcome': 'free-run', 'viol': viol, 'traces': 0}


def tasks(tier):
    out = []

    def cfgs(Ns, Rs):
        for N in Ns:
            for R in Rs:
                for mask in range(1 << R):
                    yield {'N': N, 'R': R, 'mask': mask}
    if tier == 'quick':
        for c in cfgs((1, 2), (0, 1, 2)):
            out.append({'cfg': c, 'mode': 'stateful'})
        for c in cfgs((3,), (0, 1)):
            out.append({'cfg': c, 'mode': 'stateful'})
        for mask in (5, 2):
            out.append({'cfg': {'N': 2, 'R': 3, 'mask': mask}, 'mode': 'stateful'})
        for c in cfgs((1,), (0, 1, 2, 3)):
            out.append({'cfg': c, 'mode': 'bounded', 'bound': 1})
        out.append({'cfg': {'N': 2, 'R': 1, 'mask': 1}, 'mode': 'deviation', 'bound': 2})
        out.append({'cfg': {'N': 1, 'R': 1, 'mask': 1}, 'mode': 'line', 'bound': 1})
        out.append({'cfg': {'N': 1, 'R': 2, 'mask': 1}, 'mode': 'line', 'bound': 1})
        out.append({'cfg': {'N': 1, 'R': 1, 'mask': 1, 'nopred': True}, 'mode': 'stateful', 'seam': 'flow'})
        out.append({'cfg': {'N': 2, 'R': 2, 'mask': 2}, 'mode': 'stateful', 'seam': 'flow'})
        for N_, R_, mask_ in ((1, 2, 3), (1, 3, 5), (2, 2, 3), (2, 3, 6)):
            out.append({'cfg': {'N': N_, 'R': R_, 'mask': mask_, 'slow_upstream': True}, 'mode': 'stateful'})
        # multiprocessing.Queue's feeder threads modelled (put = local buffer; a feeder moves items to the pipe later)
        for N_, R_, mask_ in ((1, 1, 1), (1, 2, 1), (1, 2, 2), (1, 3, 1), (1, 3, 5), (2, 1, 1)):
            out.append({'cfg': {'N': N_, 'R': R_, 'mask': mask_, 'feeder': True}, 'mode': 'stateful', 'max_exec': 60000})
        for N_, R_, mask_, boom_ in ((1, 2, 3, 1), (1, 3, 7, 2), (2, 2, 3, 3), (2, 3, 5, 4)):
            out.append({'cfg': {'N': N_, 'R': R_, 'mask': mask_, 'boom': boom_}, 'mode': 'stateful'})
        # a row function that is slow for some rows (timed waits elsewhere may expire meanwhile)
        for N_, R_, mask_, slow_ in ((1, 2, 3, 1), (2, 2, 3, 1), (2, 2, 3, 2), (2, 3, 7, 2)):
            out.append({'cfg': {'N': N_, 'R': R_, 'mask': mask_, 'slow_rowfunc': slow_}, 'mode': 'stateful', 'max_exec': 60000})
        # rows that come back from the workers without any field
        for N_, R_, mask_, wipe_ in ((1, 2, 3, 1), (1, 3, 7, 2), (1, 3, 5, 1), (2, 2, 3, 2), (2, 3, 6, 2)):
            out.append({'cfg': {'N': N_, 'R': R_, 'mask': mask_, 'wipe': wipe_}, 'mode': 'stateful'})
        for N_, R_, mask_ in ((1, 1, 1), (1, 2, 2), (2, 2, 3), (2, 3, 5)):
            out.append({'cfg': {'N': N_, 'R': R_, 'mask': mask_, 'truthy': True}, 'mode': 'stateful'})
        out.append({'cfg': {'N': 1, 'R': 2, 'mask': 1, 'truthy': True}, 'mode': 'stateful', 'seam': 'flow'})
        out.append({'cfg': {'N': 1, 'R': 1, 'mask': 1}, 'mode': 'stateful', 'seam': 'chain2'})
        out.append({'cfg': {'N': 1, 'R': 2, 'mask': 3}, 'mode': 'stateful', 'seam': 'chain2'})
        out.append({'cfg': {'N': 1, 'R': 1, 'mask': 1}, 'mode': 'line-dev', 'bound': 1, 'seam': 'chain2'})
        out.append({'cfg': {'N': 1, 'R': 1, 'mask': 1}, 'mode': 'deviation', 'bound': 2, 'seam': 'chain2'})
        out.append({'cfg': {'N': 2, 'R': 2, 'mask': 3}, 'mode': 'deviation', 'bound': 2})
        out.append({'cfg': {'N': 2, 'R': 2, 'mask': 3}, 'mode': 'line-dev', 'bound': 1})
    else:
        for N_, Rs in ((1, (1, 2, 3)), (2, (1, 2))):
            for R_ in Rs:
                for mask_ in range(1, 1 << R_):
                    out.append({'cfg': {'N': N_, 'R': R_, 'mask': mask_, 'feeder': True}, 'mode': 'stateful', 'max_exec': 250000})
        for N_ in (1, 2, 3):
            for R_ in (1, 2, 3):
                for mask_ in range(1, 1 << R_):
                    out.append({'cfg': {'N': N_, 'R': R_, 'mask': mask_, 'slow_upstream': True}, 'mode': 'stateful', 'max_exec': 250000})
        for N_, R_, mask_ in ((1, 1, 1), (1, 2, 2), (2, 2, 3), (2, 3, 5), (3, 3, 7)):
            out.append({'cfg': {'N': N_, 'R': R_, 'mask': mask_, 'truthy': True}, 'mode': 'stateful', 'max_exec': 250000})
        out.append({'cfg': {'N': 1, 'R': 2, 'mask': 3}, 'mode': 'stateful', 'seam': 'chain2'})
        out.append({'cfg': {'N': 1, 'R': 3, 'mask': 5}, 'mode': 'stateful', 'seam': 'chain2', 'max_exec': 250000})
        out.append({'cfg': {'N': 2, 'R': 2, 'mask': 3}, 'mode': 'stateful', 'seam': 'chain2', 'max_exec': 250000})
        out.append({'cfg': {'N': 1, 'R': 1, 'mask': 1}, 'mode': 'line-dev', 'bound': 2, 'seam': 'chain2', 'max_exec': 150000})
        out.append({'cfg': {'N': 1, 'R': 2, 'mask': 3}, 'mode': 'line-dev', 'bound': 1, 'seam': 'chain2'})
        out.append({'cfg': {'N': 1, 'R': 2, 'mask': 3}, 'mode': 'deviation', 'bound': 2, 'seam': 'chain2'})
        out.append({'cfg': {'N': 2, 'R': 2, 'mask': 3}, 'mode': 'deviation', 'bound': 3, 'max_exec': 150000})
        out.append({'cfg': {'N': 3, 'R': 3, 'mask': 7}, 'mode': 'deviation', 'bound': 2})
        out.append({'cfg': {'N': 4, 'R': 4, 'mask': 15}, 'mode': 'deviation', 'bound': 2})
        out.append({'cfg': {'N': 2, 'R': 2, 'mask': 3}, 'mode': 'line-dev', 'bound': 2, 'max_exec': 150000})
        for c in cfgs((1, 2), (0, 1, 2, 3)):
            out.append({'cfg': c, 'mode': 'stateful'})
        for c in cfgs((3,), (0, 1, 2)):
            out.append({'cfg': c, 'mode': 'stateful'})
        for c in cfgs((4,), (0, 1)):
            out.append({'cfg': c, 'mode': 'stateful'})
        for mask in (15, 5, 8):
            out.append({'cfg': {'N': 2, 'R': 4, 'mask': mask}, 'mode': 'stateful', 'max_exec': 250000})
        for mask in (7, 2):
            out.append({'cfg': {'N': 3, 'R': 3, 'mask': mask}, 'mode': 'stateful', 'max_exec': 250000})
        out.append({'cfg': {'N': 4, 'R': 2, 'mask': 3}, 'mode': 'stateful', 'max_exec': 250000})
        for c in cfgs((1,), (0, 1, 2, 3)):
            out.append({'cfg': c, 'mode': 'bounded', 'bound': 2, 'max_exec': 150000})
        for c in cfgs((2,), (0, 1, 2)):
            out.append({'cfg': c, 'mode': 'bounded', 'bound': 1, 'max_exec': 150000})
        for c in cfgs((1, 2), (1,)):
            out.append({'cfg': c, 'mode': 'line', 'bound': 1, 'max_exec': 150000})
        out.append({'cfg': {'N': 1, 'R': 2, 'mask': 1}, 'mode': 'line', 'bound': 1, 'max_exec': 150000})
        out.append({'cfg': {'N': 1, 'R': 1, 'mask': 1}, 'mode': 'line', 'bound': 2, 'max_exec': 150000})
        out.append({'cfg': {'N': 1, 'R': 2, 'mask': 3, 'nopred': True}, 'mode': 'stateful', 'seam': 'flow'})
        out.append({'cfg': {'N': 2, 'R': 2, 'mask': 2}, 'mode': 'stateful', 'seam': 'flow'})
        out.append({'cfg': {'N': 2, 'R': 3, 'mask': 6}, 'mode': 'stateful', 'seam': 'flow'})
    return out


def run(run):
    ts = tasks(run.tier)
    # biggest first so that the pool stays busy; seed rotates ties only
    ts.sort(key=lambda t: -(t['cfg']['N'] + 1) * (t['cfg']['R'] + 1) * (3 if t['mode'] == 'stateful' else 1))
    summaries = []
    for res in run.map(run_task, ts, chunksize=1, limit=3500):
        if res and not res.get('timeout'):
            sm = res.pop('summary')
            summaries.append(sm)
            if sm['capped']:
                run.caps.append('%s capped at %d executions' % (cj(sm['cfg']), sm['executions']))
        run.absorb(res)
    # free-running pass on the real primitives: the virtual layer's outcomes must include what really happens
    frees = [{'N': 2, 'R': 3, 'mask': 5}] if run.tier == 'quick' else \
        [{'N': n, 'R': r, 'mask': m} for n in (1, 2, 4) for r, m in ((0, 0), (1, 1), (3, 5), (6, 63), (6, 0))]
    for cfg in frees:
        run.absorb(free_run(cfg))
    multi = [s for s in summaries if s['delivery_orders'] > 1]
    run.extra['per_configuration'] = sorted(summaries, key=lambda s: cj([s['mode'], s['cfg']]))
    run.extra['configurations_with_several_delivery_orders'] = len(multi)
    run.samples = [s for s in summaries[:6]]
    run.rule = ('configurations N workers x R rows x every predicate bitmask; mode "stateful": every interleaving of queue/'
                'thread/process operations, merged on canonical state (queue contents, per-thread observation history, '
                'workers sorted); mode "bounded": every schedule with <= k preemptions, no merging; mode "line": '
                'additionally a scheduling point at every source line of parallelize.py; one evidence key per '
                '(configuration, mode)')
    run.explanation = ('the real dataflows.processors.parallelize code runs on a virtual threading/multiprocessing/queue '
                       'layer (module attributes substituted); items crossing an mp queue are pickled; timed joins fire '
                       'only at quiescence. traces_validated = maximal schedules executed to completion on the real code. '
                       'Per maximal schedule: delivered multiset == {f(r) if p(r) else r}, no deadlock, no leaked '
                       'thread/process, no grace-period timeout needed, no row present twice in flight')
    run.assumptions += ['virtual queues are atomic FIFOs; the feeder thread of multiprocessing.Queue is modelled only in the configurations marked feeder',
                        'state merging assumes threads share nothing but the queues; the line-level mode does not rely on it']


def replay(w):
    if 'free' in w:
        return free_run(w['free'])['viol']
    cfg = w['cfg']
    s, result, exc, deadlock = execute(cfg, w['choices'], line=w['mode'].startswith('line'), seam=w.get('seam', 'fork'))
    out = [('%s/%s' % (o, w['mode']), what, w) for o, what in judge(cfg, s, result, exc, deadlock, w.get('seam', 'fork'))]
    if not out and dup_invariant(s):
        out.append(('duplicate-in-flight/%s' % w['mode'], 'a row id is present twice', w))
    return out
