"""C07 - resuming from a checkpoint reproduces the first run (E5 history explorer + value alphabet)."""
import os
import gc
import copy
import shutil
import decimal
import datetime
import itertools
import collections

import isodate

from .. import core, fsrec
from ..core import State, mkstate, cj, h, enc

LEVEL = 'model_checking'
D = decimal.Decimal
TZ = lambda h_, m=0: datetime.timezone(datetime.timedelta(hours=h_, minutes=m))   # noqa: E731


def value_alphabet():
    """(symbol class, field type, value)"""
    dt = datetime.datetime
    return [
        ('decimal-long', 'number', D('3.141592653589793238462643383279502884197')),
        ('decimal', 'number', D('1.10')), ('decimal', 'number', D('1E+3')), ('decimal', 'number', D('-0.5')),
        ('float', 'number', 1e308), ('float', 'number', 5e-324), ('float', 'number', -0.0), ('int', 'integer', 2 ** 70),
        ('date', 'date', datetime.date(1, 1, 1)), ('date', 'date', datetime.date(999, 12, 31)), ('date', 'date', datetime.date(2020, 2, 29)),
        ('time', 'time', datetime.time(0, 0, 0)), ('time', 'time', datetime.time(23, 59, 59)),
        ('datetime-naive', 'datetime', dt(2020, 1, 2, 3, 4, 5)), ('datetime-naive', 'datetime', dt(1, 1, 1, 0, 0, 0)),
        ('datetime-utc', 'datetime', dt(2020, 1, 2, 3, 4, 5, tzinfo=TZ(0))),
        ('datetime-east', 'datetime', dt(2020, 1, 2, 3, 4, 5, tzinfo=TZ(5, 30))),
        ('datetime-east', 'datetime', dt(2020, 1, 2, 3, 4, 5, tzinfo=TZ(14))),
        ('datetime-same-instant', 'datetime', dt(2020, 1, 2, 8, 34, 5, tzinfo=TZ(5, 30))),      # == 03:04:05+00:00 above
        ('datetime-same-instant', 'datetime', dt(2020, 1, 1, 22, 4, 5, tzinfo=TZ(-5))),
        ('datetime-west', 'datetime', dt(2020, 1, 2, 3, 4, 5, tzinfo=TZ(-5))),
        ('datetime-west', 'datetime', dt(2020, 1, 2, 3, 4, 5, tzinfo=datetime.timezone(datetime.timedelta(minutes=-30)))),
        ('datetime-named-zone', 'datetime', dt(2020, 1, 2, 3, 4, 5, tzinfo=datetime.timezone(datetime.timedelta(hours=1), 'IST'))),
        ('datetime-named-zone', 'datetime', dt(2020, 1, 2, 3, 4, 5, tzinfo=datetime.timezone(datetime.timedelta(hours=5, minutes=30), 'IST'))),
        ('datetime-named-zone', 'datetime', dt(2020, 6, 2, 3, 4, 5, tzinfo=datetime.timezone(datetime.timedelta(hours=-6), 'CST'))),
        ('datetime-named-zone', 'datetime', dt(2020, 6, 2, 3, 4, 5, tzinfo=datetime.timezone(datetime.timedelta(hours=8), 'CST'))),
        ('duration', 'duration', datetime.timedelta(days=1, seconds=3)), ('duration', 'duration', datetime.timedelta(days=-2)),
        ('duration', 'duration', datetime.timedelta(seconds=1.5)), ('duration', 'duration', datetime.timedelta(microseconds=7)),
        ('duration', 'duration', datetime.timedelta(days=150000, microseconds=1)), ('duration', 'duration', isodate.Duration(years=1, months=2)),
        ('set', 'any', {1, 2}), ('set', 'any', set()),
        ('array', 'array', [1, [2, {'k': D('1.5')}], datetime.date(2020, 1, 1)]), ('array', 'array', []),
        ('object', 'object', {'a': {'b': [datetime.time(1, 2, 3), None]}, 'é': ' '}),
        ('array-float', 'array', [0.1, 1.5, [3.14, -0.0]]), ('object-float', 'object', {'x': 0.1, 'y': [1e-7, 2.0], 'z': 10 ** 20}),
        ('any-float', 'any', 0.3), ('any-int', 'any', 7), ('any-nested', 'any', {'k': [0.1, D('0.1'), 1]}),
        ('object-taglike', 'object', {'type{date}': 'x'}), ('object-taglike-valid', 'object', {'type{decimal}': '1.5'}),
        ('string', 'string', 'é😀  "q" \\ \n\tend'), ('string', 'string', ''), ('string', 'string', '{"type{date}": "2020-01-01"}'),
        ('string-linesep', 'string', 'a\x85b\u2028c\u2029d\x0b\x0c\x1ce'), ('object-linesep', 'object', {'k\u2028': ['\x85', {'n': '\u2029'}]}),
        ('bool', 'boolean', True), ('null', 'string', None),
        ('time-subsecond', 'time', datetime.time(1, 2, 3, 500000)),
        ('datetime-subsecond', 'datetime', dt(2020, 1, 2, 3, 4, 5, 123456)),
    ]


def typed_eq(a, b):
    """Same type and same value; aware datetimes by offset and instant; floats by repr."""
    if type(a) is not type(b):
        if isinstance(a, (datetime.timedelta, isodate.Duration)) and isinstance(b, (datetime.timedelta, isodate.Duration)):
            return isodate.duration_isoformat(a) == isodate.duration_isoformat(b)
        return False
    if isinstance(a, dict):
        return a.keys() == b.keys() and all(typed_eq(a[k], b[k]) for k in a)
    if isinstance(a, (list, tuple)):
        return len(a) == len(b) and all(typed_eq(x, y) for x, y in zip(a, b))
    if isinstance(a, float):
        return repr(a) == repr(b)
    if isinstance(a, datetime.datetime):
        return a.replace(tzinfo=None) == b.replace(tzinfo=None) and a.utcoffset() == b.utcoffset()
    return a == b


def rows_eq(x, y):
    return len(x) == len(y) and all(len(a) == len(b) and all(typed_eq(r, s) for r, s in zip(a, b)) for a, b in zip(x, y))


# ---- part A: values ---------------------------------------------------------------------------
def value_case(case):
    """case: {'vals': [indexes into alphabet], 'nres': int}"""
    alpha = value_alphabet()
    vals = [alpha[i] for i in case['vals']]
    ftype = vals[0][1]
    res = [('t', [('v', ftype)], [{'v': copy.deepcopy(v[2])} for v in vals])]
    if case.get('nres', 1) > 1:
        res.append(('empty', [('w', 'string')], []))
        res.append(('other', [('w', 'string')], [{'w': 'x'}]))
    st = mkstate(res)
    # package- and resource-level metadata set before the checkpoint belongs to "the same descriptor"
    st.desc.update({'name': 'pkg', 'title': 'Títle', 'version': '1.2.3', 'licenses': [{'name': 'CC0', 'path': 'http://x/y'}],
                    'x-custom': {'nested': [1, {'k': None}]}})
    st.desc['resources'][0].update({'title': 'R', 'x-res': [1, 2]})
    classes = sorted({v[0] for v in vals})
    pulls = []
    out = []
    with core.scratch_dir() as d:
        def flow():
            return core.Flow(core.from_state(st, on_pull=lambda i, j: pulls.append(1)),
                             core.dataflows.checkpoint('c1', checkpoint_path=d))
        try:
            first = flow().results()
        except Exception as e:
            return [('first-run-raises/%s' % '+'.join(classes), 'first run with %r raises %s' % ([v[2] for v in vals], core.exc_sig(e)))], 'raises'
        n1 = len(pulls)
        try:
            second = flow().results()
        except Exception as e:
            bad = classes
            if len(vals) > 1 and not case.get('_single'):
                alone = [alpha[i][0] for i in case['vals']
                         if any(sg.startswith('resume-raises') for sg, _ in value_case({'vals': [i], '_single': True})[0])]
                bad = sorted(set(alone)) or classes
            return [('resume-raises/%s' % '+'.join(bad), 'resumed run with %r raises %s: %s' %
                     ([v[2] for v in vals], core.exc_sig(e), str(e)[:100].replace('\n', ' ')))], 'raises'
        if len(pulls) != n1:
            out.append(('resume-reads-source/%s' % '+'.join(classes), 'second run pulled the source again'))
        if not rows_eq(second[0], first[0]):
            bad = sorted({v[0] for v, r, q in zip(vals, second[0][0], first[0][0]) if not typed_eq(r['v'], q['v'])}) or classes
            out.append(('resume-differs/%s' % '+'.join(bad), 'resumed run returns %r, first run %r' %
                        ([r['v'] for r in second[0][0]], [r['v'] for r in first[0][0]])))
        if second[1].descriptor != first[1].descriptor:
            out.append(('resume-descriptor/%s' % ftype, 'resumed descriptor differs from the first run\'s'))
    return out, 'ok' if not out else 'violated'


def value_batch(batch):
    out = {'n': 0, 'keys': [], 'outcomes': {}, 'viol': []}
    seen = set()
    for case in batch:
        viol, outcome = value_case(case)
        out['n'] += 1
        out['outcomes']['values:' + outcome] = out['outcomes'].get('values:' + outcome, 0) + 1
        out['keys'].append(h(case))
        for sig, what in viol:
            if sig not in seen:
                seen.add(sig)
                out['viol'].append((sig, what, dict(case, part='values')))
    out['sample'] = dict(batch[0], part='values')
    return out


# ---- part B: histories --------------------------------------------------------------------------
OPS = ['run', 'run:v2', 'rm c1', 'rm c2', 'rm both', 'failing-run:src', 'failing-run:B', 'failing-run:C']


class PlannedFailure(Exception):
    pass


def _chain(e):
    seen = []
    while e is not None and e not in seen:
        seen.append(e)
        e = e.__cause__ or e.__context__
    return seen


def history_flow(root, counters, fail=None, version=1):
    """fail: None, or the place where this run breaks while rows are flowing: 'src' (the source, on its second row),
    'B' (between the checkpoints, on the first row) or 'C' (after the last checkpoint, on the last resource)."""
    def counting(name):
        def step(package):
            counters[name] += 1
            yield package.pkg
            for k, res in enumerate(package):
                if fail == name and (name == 'B' or k == 2):
                    yield failing(res)
                else:
                    yield res
        return step

    def failing(res):
        for row in res:
            raise PlannedFailure('step %s fails while rows are flowing' % fail)
            yield row

    def pulled(i, j):
        counters['src'] += 1
        if fail == 'src' and counters['src'] == 2:
            raise PlannedFailure('the source fails on its second row')
    t_fields = [('id', 'integer'), ('when', 'datetime'), ('amt', 'number')]
    t_rows = [{'id': 1, 'when': datetime.datetime(2020, 1, 1, 1, 1, 1), 'amt': D('1.50')}, {'id': 2, 'when': None, 'amt': D('-3')}]
    if version == 2:
        # the sources have changed since (another field, other values, another row)
        t_fields = t_fields + [('extra', 'string')]
        t_rows = [dict(r, extra='e%d' % r['id'], amt=D('7')) for r in t_rows] + [{'id': 3, 'when': None, 'amt': None, 'extra': None}]
    st = mkstate([('t', t_fields, t_rows),
                  ('e', [('x', 'string')], []),
                  ('u', [('x', 'string')], [{'x': 'é'}])])
    def bump(row):
        # edits, in place and non-idempotently, the very row objects the checkpoint has just passed on
        if 'id' in row:
            row['id'] += 100
            row['amt'] = None if row['amt'] is None else row['amt'] * 2
    return core.Flow(core.from_state(st, on_pull=pulled),
                     counting('A'), core.dataflows.add_field('fa', 'integer', 1), core.dataflows.update_package(title='H', custom={'k': [1]}),
                     core.dataflows.checkpoint('c1', checkpoint_path=root),
                     counting('B'), bump, core.dataflows.add_field('fb', 'integer', 2),
                     core.dataflows.checkpoint('c2', checkpoint_path=root),
                     counting('C'), core.dataflows.add_field('fc', 'integer', 3))


def explore_histories(depth):
    out = {'n': 0, 'keys': [], 'outcomes': {}, 'viol': [], 'states': 0, 'transitions': 0, 'traces': 0}
    with core.scratch_dir() as d:
        root = os.path.join(d, 'cp')
        refs = {}
        seen = {}
        frontier = collections.deque()
        empty = ({}, frozenset())
        seen[fsrec.state_key(empty)] = []
        frontier.append((empty, []))
        while frontier:
            state, hist = frontier.popleft()
            if len(hist) >= depth:
                continue
            for op in OPS:
                shutil.rmtree(root, ignore_errors=True)
                fsrec.materialise_state(state, root)
                has1 = os.path.exists(os.path.join(root, 'c1', 'stream.ndjson'))
                has2 = os.path.exists(os.path.join(root, 'c2', 'stream.ndjson'))
                label = ' ; '.join(hist + [op])
                out['transitions'] += 1
                out['n'] += 1
                if op in ('run', 'run:v2'):
                    counters = collections.Counter()
                    ver = 2 if op == 'run:v2' else 1

                    def holds(name):
                        # which version of the sources a checkpoint was computed from (label only)
                        with open(os.path.join(root, name, 'stream.ndjson')) as fh:
                            return 2 if '"extra"' in fh.readline() else 1
                    eff = holds('c2') if has2 else (holds('c1') if has1 else ver)
                    try:
                        res = history_flow(root, counters, version=ver).results()
                    except Exception as e:
                        out['viol'].append(('history-raises/%d%d' % (has1, has2), 'history [%s]: run raises %s: %s' %
                                            (label, core.exc_sig(e), str(e)[:100]), {'part': 'history', 'hist': hist + [op]}))
                        continue
                    if refs.get(eff) is None:
                        with core.scratch_dir() as d2:
                            refs[eff] = history_flow(os.path.join(d2, 'ref'), collections.Counter(), version=eff).results()
                    ref = refs[eff]
                    nsrc = 4 if ver == 2 else 3
                    exp = {'src': 0 if (has1 or has2) else nsrc, 'A': 0 if (has1 or has2) else 1, 'B': 0 if has2 else 1, 'C': 1}
                    got = {k: counters[k] for k in exp}
                    if got != exp:
                        out['viol'].append(('history-executes/%d%d' % (has1, has2),
                                            'history [%s]: with c1 %s and c2 %s the run executed %r, model says %r' %
                                            (label, 'present' if has1 else 'absent', 'present' if has2 else 'absent', got, exp),
                                            {'part': 'history', 'hist': hist + [op]}))
                    if not rows_eq(res[0], ref[0]) or res[1].descriptor != ref[1].descriptor:
                        out['viol'].append(('history-differs/%d%d' % (has1, has2), 'history [%s]: the run does not return what the '
                                            'sources of version %d give (the version its nearest checkpoint was computed from, or '
                                            'the current one without a checkpoint)' % (label, eff), {'part': 'history', 'hist': hist + [op]}))
                    if not (os.path.exists(os.path.join(root, 'c1', 'stream.ndjson')) or has2) or \
                            not os.path.exists(os.path.join(root, 'c2', 'stream.ndjson')):
                        # a completed run saves every checkpoint it computed (c1 is computed unless c2 already existed)
                        out['viol'].append(('run-did-not-save/%d%d' % (has1, has2), 'history [%s]: the run completed but did not leave its '
                                            'checkpoints behind: %r' % (label, sorted(os.listdir(root)) if os.path.exists(root) else None),
                                            {'part': 'history', 'hist': hist + [op]}))
                    out['outcomes']['run:c1=%d,c2=%d' % (has1, has2)] = out['outcomes'].get('run:c1=%d,c2=%d' % (has1, has2), 0) + 1
                elif op.startswith('failing-run'):
                    # a run that breaks while rows are flowing must not leave anything a later run would resume from:
                    # checked on the spot (no new completed checkpoint) and, through the BFS, by every later 'run'
                    counters = collections.Counter()
                    where = op.split(':')[1]
                    try:
                        history_flow(root, counters, fail=where).results()
                        failed = False
                    except PlannedFailure:
                        failed = True
                    except Exception as e:
                        failed = True
                        if not any(isinstance(x, PlannedFailure) for x in _chain(e)):
                            out['viol'].append(('history-raises/failing-run', 'history [%s]: unexpected %s: %s' %
                                                (label, core.exc_sig(e), str(e)[:100]), {'part': 'history', 'hist': hist + [op]}))
                    gc.collect()
                    reached = not (has2 and where in ('src', 'B')) and not (has1 and where == 'src')
                    if reached and not failed:
                        out['viol'].append(('failing-run-returns/%s' % where, 'history [%s]: the run returned normally although '
                                            'step %s raised' % (label, where), {'part': 'history', 'hist': hist + [op]}))
                    now1 = os.path.exists(os.path.join(root, 'c1', 'stream.ndjson'))
                    now2 = os.path.exists(os.path.join(root, 'c2', 'stream.ndjson'))
                    # wherever it breaks, no checkpoint has seen the end of its stream: nothing new may be complete
                    expect1 = has1
                    expect2 = has2
                    if failed and (now1, now2) != (expect1, expect2):
                        out['viol'].append(('failed-run-publishes/%s' % where, 'history [%s]: the failed run left completed '
                                            'checkpoint files c1=%s c2=%s (before: c1=%s c2=%s)' % (label, now1, now2, has1, has2),
                                            {'part': 'history', 'hist': hist + [op]}))
                    out['outcomes'][op] = out['outcomes'].get(op, 0) + 1
                else:
                    for name in (['c1', 'c2'] if op == 'rm both' else [op.split()[1]]):
                        shutil.rmtree(os.path.join(root, name), ignore_errors=True)
                    out['outcomes'][op] = out['outcomes'].get(op, 0) + 1
                ns = fsrec._snapshot(root)
                k = fsrec.state_key(ns)
                out['keys'].append(h(['hist', fsrec.state_key(state), op]))
                if k not in seen:
                    seen[k] = hist + [op]
                    frontier.append((ns, hist + [op]))
                    out['traces'] += 1
        out['states'] = len(seen)
    uniq, s2 = [], set()
    for v in out['viol']:
        if v[0] not in s2:
            s2.add(v[0])
            uniq.append(v)
    out['viol'] = uniq
    out['sample'] = {'part': 'history', 'ops': OPS, 'depth': depth, 'distinct_states': out['states']}
    return out


OBJ_OPS = ['build', 'run-newest', 'run-oldest', 'rm']


def object_history(seq):
    """seq over OBJ_OPS. Flow objects are built when 'build' says so (not at run time) and may be run several times.
    Model: a run returns the reference and executes the steps before the checkpoint iff the file is absent *when it runs*."""
    viol = []
    with core.scratch_dir() as d:
        root = os.path.join(d, 'cp')
        flows = []
        ref = None
        for i, op in enumerate(seq):
            label = 'Flow objects, history [%s] at step %d' % (' ; '.join(seq), i)
            if op == 'build':
                counters = collections.Counter()
                flows.append((history_flow(root, counters), counters))
            elif op == 'rm':
                shutil.rmtree(root, ignore_errors=True)
            else:
                if not flows:
                    continue
                flow, counters = flows[-1] if op == 'run-newest' else flows[0]
                has1 = os.path.exists(os.path.join(root, 'c1', 'stream.ndjson'))
                has2 = os.path.exists(os.path.join(root, 'c2', 'stream.ndjson'))
                before = dict(counters)
                try:
                    res = flow.results()
                except Exception as e:
                    viol.append(('object-history-raises/%s' % op, '%s: run raises %s: %s' % (label, core.exc_sig(e), str(e)[:100])))
                    break
                if ref is None:
                    ref = res
                got = {k: counters[k] - before.get(k, 0) for k in ('src', 'A', 'B', 'C')}
                exp = {'src': 0 if (has1 or has2) else 3, 'A': 0 if (has1 or has2) else 1, 'B': 0 if has2 else 1, 'C': 1}
                if got != exp:
                    viol.append(('object-history-executes/%s' % op, '%s: with c1 %s / c2 %s at run time the run executed %r, model %r'
                                 % (label, 'present' if has1 else 'absent', 'present' if has2 else 'absent', got, exp)))
                    break
                if not rows_eq(res[0], ref[0]) or res[1].descriptor != ref[1].descriptor:
                    viol.append(('object-history-differs/%s' % op, '%s: result differs from the first run' % label))
                    break
    return viol


def object_batch(batch):
    out = {'n': 0, 'keys': [], 'outcomes': {}, 'viol': []}
    seen = set()
    for seq in batch:
        v = object_history(seq)
        out['n'] += 1
        out['outcomes']['object-history:' + ('ok' if not v else 'violated')] = out['outcomes'].get('object-history:' + ('ok' if not v else 'violated'), 0) + 1
        out['keys'].append(h(['objhist', seq]))
        for sig, what in v:
            if sig not in seen:
                seen.add(sig)
                out['viol'].append((sig, what, {'part': 'objects', 'seq': seq}))
    out['sample'] = {'part': 'objects', 'seq': batch[0]}
    return out


def object_sequences(maxlen):
    out = []
    for n in range(2, maxlen + 1):
        for seq in itertools.product(OBJ_OPS, repeat=n):
            if seq[0] != 'build' or not any(o.startswith('run') for o in seq):
                continue
            out.append(list(seq))
    return out


def run(run):
    alpha = value_alphabet()
    cases = [{'vals': [i]} for i in range(len(alpha))]
    # every ordered pair of values of the same field type (with repetition)
    for i, j in itertools.product(range(len(alpha)), repeat=2):
        if alpha[i][1] == alpha[j][1] and (run.tier == 'thorough' or alpha[i][0] != alpha[j][0] or i == j or
                                           alpha[i][0] == 'datetime-named-zone'):
            cases.append({'vals': [i, j]})
    cases += [{'vals': [i], 'nres': 3} for i in range(len(alpha))]
    batches = [cases[i:i + 12] for i in range(0, len(cases), 12)]
    for res in run.map(value_batch, batches, chunksize=1):
        run.absorb(res)
    depth = 4 if run.tier == 'quick' else 6
    with core.quiet():
        res = explore_histories(depth)
    run.absorb(res)
    seqs = object_sequences(5 if run.tier == 'quick' else 6)
    for res in run.map(object_batch, [seqs[i:i + 25] for i in range(0, len(seqs), 25)], chunksize=1):
        run.absorb(res)
    run.rule = ('part A: every single-field table of <=2 values (same declared type) over a %d-value alphabet covering '
                'every type the extended JSON encoding claims, plus the 3-resource variant; part B: BFS over histories '
                'of {run, rm c1, rm c2, rm both} to depth %d on a two-checkpoint chain with state merging on directory '
                'content; distinct by table / (state, op)' % (len(alpha), depth))
    run.explanation = ('states/transitions count the history graph (part B): each distinct checkpoint-directory content '
                       'is expanded once with every op; every run is the real Flow and is compared with the first run and '
                       'with the execution model (a step runs iff no existing checkpoint follows it)')
    run.extra['value_alphabet'] = ['%s:%s' % (a[0], enc(a[2])) for a in alpha]


def replay(w):
    if w.get('part') == 'objects':
        return [(sg, what, w) for sg, what in object_history(w['seq'])]
    if w.get('part') == 'history':
        return explore_histories(len(w['hist']))['viol']
    viol, _ = value_case(w)
    return [(s, what, w) for s, what in viol]
