"""C08 - an interrupted checkpoint is never used (E4a crash states + E4b faults)."""
import os
import copy
import shutil
import itertools

from .. import core, fsrec
from ..core import State, mkstate, cj, h, enc_rows

LEVEL = 'fault_enumeration'


def shape_state(shape):
    res = []
    for i, n in enumerate(shape):
        res.append(('r%d' % i, [('id', 'integer'), ('t', 'string')],
                    [{'id': 10 * i + j, 't': 'v%dé' % j} for j in range(n)]))
    return mkstate(res)


class Injected(Exception):
    pass


def make_flow(root, shape, tail, pulls, fault=None, first_attempt=False):
    """fault: None | ('up'|'down', resource index, row index | 'end')"""
    st = shape_state(shape)
    links = [core.from_state(st, on_pull=lambda i, j: pulls.append((i, j)))]
    if first_attempt:
        # the attempt that fails describes its data differently from the corrected one that follows
        links.append(core.dataflows.update_package(title='first attempt, to be corrected ' * 3))

    def injector(where):
        def step(package):
            yield package.pkg
            for ri, res in enumerate(package):
                def rows(ri=ri, res=res):
                    for j, r in enumerate(res):
                        if fault and fault[0] == where and fault[1] == ri and fault[2] == j:
                            if len(fault) > 3 and fault[3] == 'cast':
                                import tableschema
                                raise tableschema.exceptions.CastError('%s cast error at resource %d row %d' % (where, ri, j),
                                                                       errors=[tableschema.exceptions.CastError('inner')])
                            raise Injected('%s fault at resource %d row %d' % (where, ri, j))
                        yield r
                    if fault and fault[0] == where and fault[1] == ri and fault[2] == 'end':
                        raise Injected('%s fault at end of resource %d' % (where, ri))
                yield rows()
            if fault and fault[0] == where and fault[1] == 'iterend':
                # the step's own end-of-stream code (after the last resource has been handed on and read)
                raise Injected('%s fault after the last resource' % where)
        return step
    links.append(core.dataflows.add_field('A', 'integer', 1))

    def row_level(row):
        # a plain row function before the checkpoint whose code lets a StopIteration escape (e.g. next() on an exhausted helper)
        if fault and len(fault) > 3 and fault[3] == 'stopiter' and fault[0] == 'up' and row['id'] == 10 * fault[1] + fault[2]:
            raise StopIteration('row function: StopIteration at resource %d row %d' % (fault[1], fault[2]))
    links.append(row_level)
    links.append(injector('up'))
    links.append(core.dataflows.checkpoint('cp', checkpoint_path=root))
    links.append(injector('down'))
    if tail:
        links.append(core.dataflows.add_field('B', 'integer', 2))
    return core.Flow(*links)


def run_flow(root, shape, tail, fault=None):
    import gc
    pulls = []
    try:
        results, dp, _ = make_flow(root, shape, tail, pulls, fault).results()
        return ('ok', [enc_rows(r) for r in results], copy.deepcopy(dp.descriptor), len(pulls))
    except core.CaseTimeout:
        raise
    except Exception as e:
        res = ('exc', core.exc_sig(e) + ': ' + str(e)[:100], None, len(pulls))
    # the failed pipeline's suspended generators are finalised when the exception is released and the cyclic GC runs
    # (or at interpreter exit): whatever they do then belongs to what the failure leaves behind
    gc.collect()
    gc.collect()
    return res


def expected_pulls(shape):
    return sum(shape)


def recover(state, shape, tail, ref, label, d):
    """Materialise a crash/fault state and run the real next run on it - and the run after that, which picks up
    whatever the recovery run committed."""
    root = os.path.join(d, 'rec')
    shutil.rmtree(root, ignore_errors=True)
    fsrec.materialise_state(state, root)
    committed = os.path.join('cp', 'stream.ndjson') in state[0]
    r = run_flow(root, shape, tail)
    if r[0] == 'ok' and (r[1], r[2]) == (ref[1], ref[2]):
        r3 = run_flow(root, shape, tail)
        if r3[0] != 'ok' or (r3[1], r3[2]) != (ref[1], ref[2]) or r3[3] != 0:
            shutil.rmtree(root, ignore_errors=True)
            return ('run-after-recovery', '%s: the recovery run is correct, but the run after it %s' %
                    (label, 'raises %s' % r3[1] if r3[0] != 'ok' else ('re-read the sources' if r3[3] else
                     'picked up a checkpoint that differs from the uninterrupted result: rows per resource %r vs %r'
                     % ([len(x) for x in r3[1]], [len(x) for x in ref[1]])))), committed
    shutil.rmtree(root, ignore_errors=True)
    if r[0] == 'exc':
        return ('recovery-raises', '%s: the next run raises %s' % (label, r[1])), committed
    if (r[1], r[2]) != (ref[1], ref[2]):
        which = 'picked up an incomplete checkpoint' if r[3] == 0 else 'recomputed but differs'
        return ('recovery-differs', '%s: the next run %s: rows per resource %r, uninterrupted run %r' %
                (label, which, [len(x) for x in r[1]], [len(x) for x in ref[1]])), committed
    if not committed and r[3] == 0 and expected_pulls(shape) > 0:
        return ('used-uncommitted', '%s: the next run did not read the sources although no committed checkpoint '
                'existed' % label), committed
    return None, committed


def close_stale_handles(root):
    """The order in which the cyclic GC finalises a dead pipeline's generators, text wrapper, buffer and raw file is not
    specified (a raw file closed first silently discards what the wrapper still buffers). The harness owns that choice: the
    handles the failed run left open under root are closed in the natural order (wrapper first), i.e. whatever they still
    buffer reaches the file - as it does at interpreter exit - before the rest of the pipeline is collected."""
    n = 0
    for o in (root if isinstance(root, list) else open_handles(root)):
        try:
            o.close()
            n += 1
        except Exception:
            pass
    return n


def open_handles(root):
    import gc
    import io
    out = []
    for o in gc.get_objects():
        try:
            if isinstance(o, io.TextIOWrapper) and not o.closed and str(getattr(o, 'name', '')).startswith(root):
                out.append(o)
        except Exception:
            pass
    return out


def retry_while_alive(d, shape, tail, ref, where, ri, j, changed=False):
    """The failed run's exception (and with it the suspended pipeline) is kept alive - as an interactive session, a test
    runner or plain reference cycles would - and a fresh Flow is run right away.  changed: the failed attempt described
    its data differently (the user corrected the pipeline before retrying)."""
    root = os.path.join(d, 'alive')
    shutil.rmtree(root, ignore_errors=True)
    os.makedirs(root)
    keep = []
    import gc
    gc.disable()
    try:
        try:
            make_flow(root, shape, tail, [], (where, ri, j), first_attempt=changed).results()
        except Exception as e:
            keep.append(e)
        stale = open_handles(root)
        label = '%s run while' % ('corrected Flow (different package title)' if changed else 'fresh Flow')
        label = label + ' the pipeline that failed in the %sstream step at resource %s row %s is still referenced' % (where, ri, j)
        pulls = []
        try:
            res, dp, _ = make_flow(root, shape, tail, pulls).results()
            second = ('ok', [enc_rows(r) for r in res], copy.deepcopy(dp.descriptor))
        except Exception as e:
            second = ('exc', core.exc_sig(e) + ': ' + str(e)[:80])
    finally:
        gc.enable()
    out = None
    if second[0] == 'exc':
        out = ('retry-raises', '%s: raises %s' % (label, second[1]))
    elif (second[1], second[2]) != (ref[1], ref[2]):
        out = ('retry-differs', '%s: returns rows per resource %r, uninterrupted %r' % (label, [len(x) for x in second[1]], [len(x) for x in ref[1]]))
    close_stale_handles(stale)
    del stale[:]
    del keep[:]
    gc.collect()
    gc.collect()
    if out is None:
        # only now is the failed pipeline finalised (its generators closed, its file handle flushed and released): whatever
        # that does must not touch the checkpoint the retry has committed in the meantime
        r3 = run_flow(root, shape, tail)
        if r3[0] != 'ok' or (r3[1], r3[2]) != (ref[1], ref[2]):
            out = ('run-after-release', '%s: the retry is correct, but once the failed pipeline has been garbage-collected a later '
                   'run %s' % (label, 'raises %s' % r3[1] if r3[0] != 'ok' else 'picks up a checkpoint that differs: rows per '
                               'resource %r vs %r' % ([len(x) for x in r3[1]], [len(x) for x in ref[1]])))
    shutil.rmtree(root, ignore_errors=True)
    return out


def finalised_during_retry(d, shape, tail, ref, where, ri, j):
    """The failed pipeline is finalised (exception dropped, cyclic GC) right before the k-th file-system operation of the retry,
    for every k: what its generators and file handle do then must not disturb the run that is in progress."""
    import gc
    out, n = None, 0
    k = 0
    while out is None:
        root = os.path.join(d, 'fin')
        shutil.rmtree(root, ignore_errors=True)
        os.makedirs(root)
        keep = []
        gc.disable()
        try:
            try:
                make_flow(root, shape, tail, [], (where, ri, j)).results()
            except Exception as e:
                keep.append(e)
            stale = open_handles(root)

            def release():
                close_stale_handles(stale)
                del stale[:]
                del keep[:]
                gc.collect()
            rec = fsrec.Recorder(root, call_at=k, callback=release)
            label = ('retry during which the pipeline that failed in the %sstream step at resource %s row %s is garbage-collected '
                     'right before fs operation #%d' % (where, ri, j, k))
            try:
                with rec.active():
                    res, dp, _ = make_flow(root, shape, tail, []).results()
                second = ('ok', [enc_rows(r) for r in res], copy.deepcopy(dp.descriptor))
            except Exception as e:
                second = ('exc', core.exc_sig(e) + ': ' + str(e)[:80])
        finally:
            gc.enable()
        del keep[:]
        gc.collect()
        nops = len(rec.ops)
        n += 1
        if second[0] == 'exc':
            out = ('retry-raises/gc-during-retry', '%s: raises %s' % (label, second[1]))
        elif (second[1], second[2]) != (ref[1], ref[2]):
            out = ('retry-differs/gc-during-retry', '%s: returns rows per resource %r, uninterrupted %r' %
                   (label, [len(x) for x in second[1]], [len(x) for x in ref[1]]))
        else:
            r3 = run_flow(root, shape, tail)
            if r3[0] != 'ok' or (r3[1], r3[2]) != (ref[1], ref[2]):
                out = ('run-after-retry/gc-during-retry', '%s: the retry is correct, but a later run %s' %
                       (label, 'raises %s' % r3[1] if r3[0] != 'ok' else 'picks up a checkpoint that differs'))
        k += 1
        if k >= nops:
            break
    shutil.rmtree(os.path.join(d, 'fin'), ignore_errors=True)
    return out, n


def same_object_retry(d, shape, tail, ref, where, ri, j):
    """The SAME Flow object is run again after its failure (the transient fault gone), then a fresh Flow resumes."""
    import gc
    root = os.path.join(d, 'so')
    shutil.rmtree(root, ignore_errors=True)
    os.makedirs(root)
    pulls = []
    fault = [where, ri, j]
    armed = [True]

    class OnceFault(tuple):
        pass
    # make_flow reads fault[0..2] at row time: disarm by replacing the resource index
    flow = make_flow(root, shape, tail, pulls, fault)
    try:
        flow.results()
        first = 'ok'
    except Exception:
        first = 'exc'
    gc.collect()
    fault[1] = -1          # the fault is gone
    label = 'same Flow object retried after an exception in the %sstream step at resource %s row %s' % (where, ri, j)
    try:
        res, dp, _ = flow.results()
        second = ('ok', [enc_rows(r) for r in res], copy.deepcopy(dp.descriptor))
    except Exception as e:
        second = ('exc', core.exc_sig(e) + ': ' + str(e)[:80])
    gc.collect()
    out = None
    if second[0] == 'ok' and (second[1], second[2]) != (ref[1], ref[2]):
        out = ('retry-differs', '%s: the retry returns rows per resource %r, uninterrupted %r' % (label, [len(x) for x in second[1]], [len(x) for x in ref[1]]))
    elif second[0] == 'ok':
        r3 = run_flow(root, shape, tail)
        if r3[0] != 'ok' or (r3[1], r3[2]) != (ref[1], ref[2]):
            out = ('run-after-retry', '%s: the retry is correct, but a later run %s' % (label, 'raises %s' % r3[1] if r3[0] != 'ok' else
                   'picks up a checkpoint that differs: rows per resource %r vs %r' % ([len(x) for x in r3[1]], [len(x) for x in ref[1]])))
    shutil.rmtree(root, ignore_errors=True)
    return out


def check_scenario(sc):
    """sc = {'shape': [..], 'tail': bool}: crash states of one recorded run + fs faults + step faults."""
    shape, tail = sc['shape'], sc['tail']
    out = {'n': 0, 'keys': [], 'outcomes': {}, 'viol': []}

    def note(outcome, key=None, nontrivial=True):
        out['n'] += 1
        out['outcomes'][outcome] = out['outcomes'].get(outcome, 0) + 1
        if key and nontrivial:
            out['keys'].append(key)

    def V(oracle, what, witness):
        out['viol'].append(('%s/%s' % (oracle, witness['kind']), what, dict(witness, shape=shape, tail=tail)))

    with core.scratch_dir() as d:
        root = os.path.join(d, 'ck')
        os.makedirs(root)
        rec = fsrec.Recorder(root)
        with rec.active():
            ref = run_flow(root, shape, tail)
        assert ref[0] == 'ok', ref
        nops = len(rec.ops)
        final = rec.points[-1][1]
        assert os.path.join('cp', 'stream.ndjson') in final[0], sorted(final[0])
        # (1) crash states
        states = rec.crash_states()
        for label, st in states:
            v, committed = recover(st, shape, tail, ref, 'kill %s' % label, d)
            note('crash:%s' % ('committed' if committed else 'uncommitted'), h(['crash', shape, tail, fsrec.state_key(st)]),
                 nontrivial=bool(st[0]))
            if v:
                V(v[0], v[1], {'kind': 'crash', 'label': label})
        # a rerun on the committed state must not read the sources
        r2 = run_flow(root, shape, tail)
        note('resume')
        if r2[0] != 'ok' or (r2[1], r2[2]) != (ref[1], ref[2]) or r2[3] != 0:
            V('resume', 'second run on the committed checkpoint differs or re-read the sources', {'kind': 'resume'})
        # (2) OSError at the k-th fs operation
        for k in range(nops):
            r_root = os.path.join(d, 'f%d' % k)
            os.makedirs(r_root)
            frec = fsrec.Recorder(r_root, fail_at=k)
            with frec.active():
                fr = run_flow(r_root, shape, tail)
            after = frec.points[-1][1]
            kind = frec.fired[1] if frec.fired else '?'
            if fr[0] == 'ok':
                V('fault-swallowed', 'OSError injected at fs op #%d (%s) but the run returned normally' % (k, kind),
                  {'kind': 'fsfault', 'k': k, 'op': kind})
            v, committed = recover(after, shape, tail, ref, 'OSError at fs op #%d (%s %s)' % (k, kind, frec.fired[2] if frec.fired else ''), d)
            note('fsfault:%s:%s' % (kind, 'committed' if committed else 'uncommitted'), h(['fsfault', shape, tail, k]))
            if v:
                V(v[0], v[1], {'kind': 'fsfault', 'k': k, 'op': kind})
            shutil.rmtree(r_root, ignore_errors=True)
        # (3) exception from an upstream / downstream step at every row and at exhaustion
        # a validation error (tableschema CastError) raised by a step while rows are flowing is a failure like any other
        # (so is a StopIteration escaping from row-level code: it must not read as the end of the resource)
        for ri, (n, exkind) in [(ri_, (n_, k_)) for k_ in ('cast', 'stopiter') for ri_, n_ in enumerate(shape)]:
            for j in range(n if sc.get('deep') else min(n, 1)):
                r_root = os.path.join(d, 'c')
                shutil.rmtree(r_root, ignore_errors=True)
                os.makedirs(r_root)
                frec = fsrec.Recorder(r_root)
                with frec.active():
                    fr = run_flow(r_root, shape, tail, fault=('up', ri, j, exkind))
                after = frec.points[-1][1]
                if fr[0] == 'ok':
                    V('fault-swallowed', '%s raised by the upstream step at resource %d row %d but the run returned normally' % (exkind, ri, j),
                      {'kind': 'castfault', 'ri': ri, 'j': j})
                v, committed = recover(after, shape, tail, ref, '%s raised by the upstream step at resource %d row %d' % (exkind, ri, j), d)
                if not v and committed:
                    v = ('failed-run-committed', '%s raised by the upstream step at resource %d row %d: the run left a committed '
                         'checkpoint behind' % (exkind, ri, j))
                note('%sfault:%s' % (exkind, 'committed' if committed else 'uncommitted'), h([exkind + 'fault', shape, tail, ri, j]))
                if v:
                    V(v[0], v[1], {'kind': 'castfault', 'ri': ri, 'j': j})
        for where in ('up', 'down'):
            for ri, n in list(enumerate(shape)) + [('iterend', 0)]:
                for j in list(range(n)) + ['end']:
                    r_root = os.path.join(d, 's')
                    shutil.rmtree(r_root, ignore_errors=True)
                    os.makedirs(r_root)
                    frec = fsrec.Recorder(r_root)
                    with frec.active():
                        fr = run_flow(r_root, shape, tail, fault=(where, ri, j))
                    after = frec.points[-1][1]
                    if fr[0] == 'ok':
                        V('fault-swallowed', 'step fault %s/%d/%s but the run returned normally' % (where, ri, j),
                          {'kind': 'stepfault', 'where': where, 'ri': ri, 'j': j})
                    v, committed = recover(after, shape, tail, ref, 'exception in %sstream step at resource %s row %s'
                                           % (where, ri, j), d)
                    if not v and where == 'up' and fr[0] == 'exc' and committed:
                        # a step before the checkpoint failed: whatever the checkpoint had received by then, the run did not
                        # complete and nothing usable may exist (the next run would silently skip the step that failed)
                        v = ('failed-run-committed', 'exception in upstream step at resource %s row %s: the failed run left a '
                             'committed checkpoint behind' % (ri, j))
                    if not v:
                        v2 = same_object_retry(d, shape, tail, ref, where, ri, j)
                        note('same-object-retry')
                        if v2:
                            V(v2[0], v2[1], {'kind': 'same-object-retry', 'where': where, 'ri': ri, 'j': j})
                        v3 = retry_while_alive(d, shape, tail, ref, where, ri, j)
                        note('retry-while-alive')
                        if v3:
                            V(v3[0], v3[1], {'kind': 'retry-while-alive', 'where': where, 'ri': ri, 'j': j})
                        if fr[0] == 'exc' and j in (0, 'end') and not committed:
                            # (a failed run that did commit - the failure came after the checkpoint was complete - is
                            # legitimately picked up by the corrected pipeline, first-attempt description included)
                            v3 = retry_while_alive(d, shape, tail, ref, where, ri, j, changed=True)
                            note('retry-while-alive-changed')
                            if v3:
                                V(v3[0] + '/changed', v3[1], {'kind': 'retry-while-alive-changed', 'where': where, 'ri': ri, 'j': j})
                        if j == 0 and fr[0] == 'exc' and (sc.get('deep') or len(shape) <= 2):
                            v4, cnt = finalised_during_retry(d, shape, tail, ref, where, ri, j)
                            for _ in range(cnt):
                                note('gc-during-retry', h(['gc-during-retry', shape, tail, where, ri, j, _]))
                            if v4:
                                V(v4[0], v4[1], {'kind': 'gc-during-retry', 'where': where, 'ri': ri, 'j': j})
                    note('stepfault:%s:%s' % (where, 'committed' if committed else 'uncommitted'),
                         h(['stepfault', shape, tail, where, ri, j]))
                    if v:
                        V(v[0], v[1], {'kind': 'stepfault', 'where': where, 'ri': ri, 'j': j})
    out['sample'] = {'shape': shape, 'tail': tail, 'fs_ops': [o[1] + ' ' + o[2] for o in rec.ops][:12],
                     'crash_states': len(states)}
    # one signature per (oracle, kind)
    seen, uniq = set(), []
    for v in out['viol']:
        if v[0] not in seen:
            seen.add(v[0])
            uniq.append(v)
    out['viol'] = uniq
    return out


def check_generator_source(sc):
    """An in-memory generator source (100-row inference sample) that breaks at row k: before, inside and beyond the sample."""
    out = {'n': 0, 'keys': [], 'outcomes': {}, 'viol': []}
    n, tail = 130, sc['tail']
    with core.scratch_dir() as d:
        for k in (0, 50, 99, 100, 101, 129):
            root = os.path.join(d, 'g%d' % k)
            os.makedirs(root)

            def gen(fail_at):
                for i in range(n):
                    if i == fail_at:
                        raise Injected('the source breaks at row %d' % i)
                    yield {'id': i, 't': 'v%d' % i}

            def flow(fail_at):
                links = [gen(fail_at), core.dataflows.checkpoint('cp', checkpoint_path=root)]
                if tail:
                    links.append(core.dataflows.add_field('B', 'integer', 2))
                return core.Flow(*links)
            try:
                flow(k).results()
                failed = False
            except Exception:
                failed = True
            import gc
            gc.collect()
            committed = os.path.exists(os.path.join(root, 'cp', 'stream.ndjson'))
            out['n'] += 1
            out['keys'].append(h(['gensrc', tail, k]))
            out['outcomes']['gensrc:%s' % ('committed' if committed else 'uncommitted')] = out['outcomes'].get('gensrc:%s' % ('committed' if committed else 'uncommitted'), 0) + 1
            label = 'generator source of %d rows breaking at row %d, checkpoint%s' % (n, k, ' + step' if tail else '')
            if not failed:
                out['viol'].append(('fault-swallowed/generator-source', '%s: the run returned normally' % label, {'gensrc': True, 'tail': tail}))
            elif committed:
                out['viol'].append(('failed-run-committed/generator-source', '%s: the failed run left a committed checkpoint' % label,
                                    {'gensrc': True, 'tail': tail}))
            else:
                try:
                    rows = flow(None).results()[0]
                    if [len(r) for r in rows] != [n]:
                        out['viol'].append(('recovery-differs/generator-source', '%s: the next run returns %r rows' % (label, [len(r) for r in rows]),
                                            {'gensrc': True, 'tail': tail}))
                except Exception as e:
                    out['viol'].append(('recovery-raises/generator-source', '%s: the next run raises %s' % (label, core.exc_sig(e)), {'gensrc': True, 'tail': tail}))
    uniq, seen = [], set()
    for v in out['viol']:
        if v[0] not in seen:
            seen.add(v[0])
            uniq.append(v)
    out['viol'] = uniq
    out['sample'] = {'generator_source_rows': n, 'tail': tail}
    return out


def scenarios(tier):
    shapes = []
    for nres in (1, 2, 3):
        for sh in itertools.product((0, 1, 2), repeat=nres):
            shapes.append(list(sh))
    if tier == 'thorough':
        shapes += [[3, 3], [5], [0, 0, 0, 1], [2, 2, 2, 2]]
    return [{'shape': s, 'tail': t, 'deep': tier == 'thorough'} for s in shapes for t in (False, True)]


def run(run):
    scs = scenarios(run.tier)
    k = run.seed % len(scs)
    scs = scs[k:] + scs[:k]
    for res in run.map(check_scenario, scs, chunksize=1, limit=1200):
        run.absorb(res)
    for res in run.map(check_generator_source, [{'tail': False}, {'tail': True}], chunksize=1, limit=600):
        run.absorb(res)
    run.rule = ('for each pipeline shape (1..3 resources x 0..2 rows, checkpoint last or followed by a step): every '
                'distinct directory content observable at any interception point of the recorded run (before/after '
                'every makedirs/open/write/flush/close/rename, torn flushes, partially auto-flushed buffers), an '
                'OSError at every fs operation, and an exception in an upstream/downstream step at every row and at '
                'exhaustion; each followed by the real next run. Distinct by resulting directory state / fault point; '
                'non-trivial = directory not empty')
    run.explanation = 'recovery is the real next run of the same Flow on the materialised crash state'
    run.assumptions.append('process-kill semantics: data flushed to the kernel survives, user-space buffers do not; '
                           'power-loss reordering is out of scope (the code never fsyncs)')


def replay(w):
    if w.get('gensrc'):
        return check_generator_source({'tail': w['tail']})['viol']
    # (the GC-schedule sweep is only re-run for witnesses it produced: it dominates the cost of a scenario)
    out = check_scenario({'shape': w['shape'], 'tail': w['tail'], 'deep': w.get('kind') in ('gc-during-retry', 'castfault')})
    return out['viol']
