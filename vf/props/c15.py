"""C15 - field-level processors change schema and rows in lockstep (E2, reference models)."""
import re
import copy
import functools
import itertools

from .. import core, e2
from ..core import mkstate, cj, enc, enc_rows

LEVEL = 'exploration'
NAMES = ['a', 'ab', 'a.b', 'a+', '(a)', 'b']


def table(fields, nrows=2):
    rows = [{f: '%s/%d' % (f, i) for f in fields} for i in range(nrows)]
    return rows


def state(fields, rows, types=None):
    fl = [(f, (types or {}).get(f, 'string')) for f in fields]
    other = [{f: 'o:%s' % f for f in fields}]
    return mkstate([('other', fl, other), ('t', fl, copy.deepcopy(rows))]), other


def fm(pattern, regex, name):
    return re.fullmatch(pattern if regex else re.escape(pattern), name) is not None


def run_step(st, step):
    try:
        return 'ok', core.materialise(core.from_state(st), step, via='results_raw')
    except core.CaseTimeout:
        raise
    except Exception as e:
        return 'exc', e


def base_checks(label, proc, out, other, exp_fields, exp_rows):
    """Common oracle: unselected resource identical; schema field list; lockstep; row values."""
    viol = []
    names = out.names()
    if names != ['other', 't']:
        return [('resources/%s' % proc, '%s: resources became %r' % (label, names))]
    if enc_rows(out.rows[0]) != enc_rows(other):
        viol.append(('unselected/%s' % proc, '%s: the unselected resource changed: %r' % (label, out.rows[0])))
    got_fields = [f['name'] for f in out.desc['resources'][1]['schema']['fields']]
    ofields = [f['name'] for f in out.desc['resources'][0]['schema']['fields']]
    if ofields != list(other[0].keys()):
        viol.append(('unselected-schema/%s' % proc, '%s: the unselected resource\'s schema changed: %r' % (label, ofields)))
    if got_fields != exp_fields:
        viol.append(('schema/%s' % proc, '%s: schema fields %r, documented rule gives %r' % (label, got_fields, exp_fields)))
    for i, r in enumerate(out.rows[1]):
        if set(r.keys()) != set(got_fields):
            viol.append(('lockstep/%s' % proc, '%s: row %d has keys %r but the schema declares %r' % (label, i, sorted(r), got_fields)))
            break
    if not viol and enc_rows(out.rows[1]) != enc_rows(exp_rows):
        viol.append(('values/%s' % proc, '%s: rows %r, expected %r' % (label, out.rows[1], exp_rows)))
    return viol


# ---- per-processor cases -------------------------------------------------------------------------
def check(case):
    proc = case['proc']
    return globals()['check_' + proc](case)


def check_add_then(case):
    """A field added to BOTH resources by one step, then a field-level step restricted to one of them: the other resource's
    schema and rows must keep the field as it was added."""
    fields = ['a', 'b']
    rows = table(fields)
    st, other = state(fields, rows)
    how, then = case['how'], case['then']
    df = core.dataflows
    add = {'add_field': lambda: df.add_field('n', 'string', 'd', resources=None),
           'add_field_opts': lambda: df.add_field('n', 'string', 'd', resources=None, title='N', constraints={'minLength': 1}),
           'computed_dict': lambda: df.add_computed_field(target={'name': 'n', 'type': 'string'}, operation='constant', with_='d',
                                                          resources=None),
           'computed_str': lambda: df.add_computed_field(target='n', operation='constant', with_='d', resources=None)}[how]()
    second, exp_fields, conv = {
        'rename': (lambda: df.rename_fields({'n': 'm'}, resources='t'), ['a', 'b', 'm'], lambda r: {'a': r['a'], 'b': r['b'], 'm': 'd'}),
        'delete': (lambda: df.delete_fields(['n'], resources='t'), ['a', 'b'], lambda r: {'a': r['a'], 'b': r['b']}),
        'set_type': (lambda: df.set_type('n', type='string', title='changed', resources='t'), ['a', 'b', 'n'],
                     lambda r: {'a': r['a'], 'b': r['b'], 'n': 'd'}),
        'select': (lambda: df.select_fields(['a', 'n'], resources='t'), ['a', 'n'], lambda r: {'a': r['a'], 'n': 'd'}),
    }[then]
    label = '%s(n) on both resources, then %s restricted to one' % (how, then)
    kind, out = run_step(st, core.Flow(add, second()))
    if kind == 'exc':
        return [('raises/add-then-%s' % then, '%s raises %s: %s' % (label, core.exc_sig(out), str(out)[:100]))], 'violated', True
    other2 = [dict(o, n='d') for o in other]
    v = base_checks(label, 'add-then-%s' % then, out, other2, exp_fields, [conv(r) for r in rows])
    od = [f for f in out.desc['resources'][0]['schema']['fields'] if f['name'] == 'n']
    if not v and (not od or od[0].get('title') == 'changed'):
        v.append(('unselected-schema/add-then-%s' % then, '%s: the unselected resource\'s field n became %r' % (label, od)))
    return v, 'ok' if not v else 'violated', True


def check_two_res(case):
    """Both resources selected (resources=None), their field lists differ, and the consumer either reads sequentially or
    requests both resources before reading any row: every resource must be treated by its own field list."""
    df = core.dataflows
    f_other, f_t = ['a', 'x', 'k'], ['a', 'b', 'c', 'k']
    rows_o = [{'a': 'oa%d' % i, 'x': 'ox%d' % i, 'k': 'k'} for i in range(2)]
    rows_t = [{'a': 'ta%d' % i, 'b': 'tb%d' % i, 'c': 'tc%d' % i, 'k': 'k'} for i in range(2)]
    st = mkstate([('other', [(f, 'string') for f in f_other], rows_o), ('t', [(f, 'string') for f in f_t], rows_t)])
    what = case['what']
    step, keep, ren = {
        'select': (lambda: df.select_fields(['a', 'b', 'x'], resources=None), lambda f: f in ('a', 'b', 'x'), {}),
        'select_regex': (lambda: df.select_fields(['[abx]'], resources=None), lambda f: f in ('a', 'b', 'x'), {}),
        'delete': (lambda: df.delete_fields(['a', 'c', 'x'], resources=None), lambda f: f not in ('a', 'c', 'x'), {}),
        'rename': (lambda: df.rename_fields({'b': 'b2', 'x': 'x2'}, resources=None), lambda f: True, {'b': 'b2', 'x': 'x2'}),
    }[what]
    label = '%s over two resources with different fields%s' % (what, ', consumed by a step that requests both resources first' if case.get('eager') else '')
    links = [core.from_state(st, sequential=False), step()]
    if case.get('eager'):
        def eager(package):
            yield package.pkg
            held = list(package)
            for r in held:
                yield r
        links.append(eager)
    try:
        out = core.materialise(*links, via='results_raw')
    except core.CaseTimeout:
        raise
    except Exception as e:
        return [('raises/two-res-%s' % what, '%s raises %s: %s' % (label, core.exc_sig(e), str(e)[:100]))], 'violated', True
    v = []
    for idx, (name, fields, rows) in enumerate((('other', f_other, rows_o), ('t', f_t, rows_t))):
        exp_fields = [ren.get(f, f) for f in fields if keep(f)]
        exp_rows = [{ren.get(f, f): r[f] for f in fields if keep(f)} for r in rows]
        got_fields = [f['name'] for f in out.desc['resources'][idx]['schema']['fields']]
        if got_fields != exp_fields:
            v.append(('schema/two-res-%s' % what, '%s: %s has schema %r, expected %r' % (label, name, got_fields, exp_fields)))
        elif enc_rows(out.rows[idx]) != enc_rows(exp_rows):
            v.append(('values/two-res-%s' % what, '%s: %s has rows %r, expected %r' % (label, name, out.rows[idx], exp_rows)))
    return v[:1], 'ok' if not v else 'violated', True


def check_reorder_then(case):
    """select_fields in another order than the columns (the schema is reordered, the row dicts keep their key order), then a
    field-level step: values must stay with their names."""
    df = core.dataflows
    fields = ['a', 'b', 'c']
    rows = table(fields)
    st, other = state(fields, rows)
    then = case['then']
    second, exp_fields, conv = {
        'rename': (lambda: df.rename_fields({'a': 'x'}, resources='t'), ['c', 'x', 'b'], lambda r: {'c': r['c'], 'x': r['a'], 'b': r['b']}),
        'rename2': (lambda: df.rename_fields({'c': 'z', 'b': 'y'}, resources='t'), ['z', 'a', 'y'], lambda r: {'z': r['c'], 'a': r['a'], 'y': r['b']}),
        'find_replace': (lambda: df.find_replace([{'name': 'b', 'patterns': [{'find': '/', 'replace': '|'}]}], resources='t'), ['c', 'a', 'b'],
                         lambda r: {'c': r['c'], 'a': r['a'], 'b': r['b'].replace('/', '|')}),
        'delete': (lambda: df.delete_fields(['a'], resources='t'), ['c', 'b'], lambda r: {'c': r['c'], 'b': r['b']}),
    }[then]
    label = "select_fields(['c', 'a', 'b']) then %s" % then
    kind, out = run_step(st, core.Flow(df.select_fields(['c', 'a', 'b'], resources='t'), second()))
    if kind == 'exc':
        return [('raises/reorder-then-%s' % then, '%s raises %s: %s' % (label, core.exc_sig(out), str(out)[:100]))], 'violated', True
    v = base_checks(label, 'reorder-then-%s' % then, out, other, exp_fields, [conv(r) for r in rows])
    return v, 'ok' if not v else 'violated', True


def check_select(case):
    fields, req, regex = case['fields'], case['req'], case['regex']
    rows = table(fields)
    st, other = state(fields, rows)
    label = 'select_fields(%r, regex=%s) on fields %r' % (req, regex, fields)
    sel, remaining = [], list(fields)
    for p in req:
        try:
            for f in list(remaining):
                if fm(p, regex, f):
                    sel.append(f)
                    remaining.remove(f)
        except re.error:
            return [], 'rejected', False
    kind, out = run_step(st, core.dataflows.select_fields(copy.deepcopy(req), resources='t', regex=regex))
    if not sel:
        return ([], 'rejected-empty', False) if kind == 'exc' else \
            ([('select-nothing/select', '%s: nothing matches but the step ran' % label)], 'violated', True)
    if kind == 'exc':
        return [('raises/select', '%s raises %s: %s' % (label, core.exc_sig(out), str(out)[:100]))], 'violated', True
    exp_rows = [{f: r[f] for f in sel} for r in rows]
    v = base_checks(label, 'select', out, other, sel, exp_rows)
    return v, 'ok' if not v else 'violated', True


def check_delete_all(case):
    """resources=None: every resource that has the field loses it (two resources with the same fields)."""
    fields, req, regex = case['fields'], case['req'], case['regex']
    rows = table(fields)
    st, other = state(fields, rows)
    label = 'delete_fields(%r, regex=%s, resources=None) on two resources with fields %r' % (req, regex, fields)
    try:
        keep = [f for f in fields if not any(fm(p, regex, f) for p in req)]
    except re.error:
        return [], 'rejected', False
    kind, out = run_step(st, core.dataflows.delete_fields(copy.deepcopy(req), resources=None, regex=regex))
    if kind == 'exc':
        return [('raises/delete-all', '%s raises %s: %s' % (label, core.exc_sig(out), str(out)[:100]))], 'violated', True
    v = []
    for i, (name, src_rows) in enumerate((('other', other), ('t', rows))):
        gf = [f['name'] for f in out.desc['resources'][i]['schema']['fields']]
        exp = [{f: r[f] for f in keep} for r in src_rows]
        if gf != keep:
            v.append(('schema/delete-all', '%s: resource %r declares %r, expected %r' % (label, name, gf, keep)))
            break
        if enc_rows(out.rows[i]) != enc_rows(exp):
            v.append(('values/delete-all', '%s: resource %r rows %r, expected %r' % (label, name, out.rows[i], exp)))
            break
    return v, 'ok' if not v else 'violated', len(keep) != len(fields)


def check_select_all(case):
    fields, req, regex = case['fields'], case['req'], case['regex']
    rows = table(fields)
    st, other = state(fields, rows)
    label = 'select_fields(%r, regex=%s, resources=None) on two resources with fields %r' % (req, regex, fields)
    sel, remaining = [], list(fields)
    try:
        for p in req:
            for f in list(remaining):
                if fm(p, regex, f):
                    sel.append(f)
                    remaining.remove(f)
    except re.error:
        return [], 'rejected', False
    kind, out = run_step(st, core.dataflows.select_fields(copy.deepcopy(req), resources=None, regex=regex))
    if not sel:
        return [], 'rejected-empty', False
    if kind == 'exc':
        return [('raises/select-all', '%s raises %s: %s' % (label, core.exc_sig(out), str(out)[:100]))], 'violated', True
    v = []
    for i, (name, src_rows) in enumerate((('other', other), ('t', rows))):
        gf = [f['name'] for f in out.desc['resources'][i]['schema']['fields']]
        exp = [{f: r[f] for f in sel} for r in src_rows]
        if gf != sel:
            v.append(('schema/select-all', '%s: resource %r declares %r, expected %r' % (label, name, gf, sel)))
            break
        if enc_rows(out.rows[i]) != enc_rows(exp):
            v.append(('values/select-all', '%s: resource %r rows differ' % (label, name)))
            break
    return v, 'ok' if not v else 'violated', True


def check_delete(case):
    fields, req, regex = case['fields'], case['req'], case['regex']
    rows = table(fields)
    st, other = state(fields, rows)
    label = 'delete_fields(%r, regex=%s) on fields %r' % (req, regex, fields)
    try:
        keep = [f for f in fields if not any(fm(p, regex, f) for p in req)]
    except re.error:
        return [], 'rejected', False
    kind, out = run_step(st, core.dataflows.delete_fields(copy.deepcopy(req), resources='t', regex=regex))
    if kind == 'exc':
        return [('raises/delete', '%s raises %s: %s' % (label, core.exc_sig(out), str(out)[:100]))], 'violated', True
    exp_rows = [{f: r[f] for f in keep} for r in rows]
    v = base_checks(label, 'delete', out, other, keep, exp_rows)
    return v, 'ok' if not v else 'violated', len(keep) != len(fields)


def check_rename(case):
    fields, mapping, regex = case['fields'], case['map'], case['regex']
    rows = table(fields)
    st, other = state(fields, rows)
    label = 'rename_fields(%r, regex=%s) on fields %r' % (mapping, regex, fields)
    newnames = []
    try:
        for f in fields:
            nn = f
            for src, tgt in mapping:
                if fm(src, regex, f):
                    nn = re.sub('^(?:%s)$' % (src if regex else re.escape(src)), tgt, f)
                    break
            newnames.append(nn)
    except re.error:
        return [], 'rejected', False
    kind, out = run_step(st, core.dataflows.rename_fields(dict(mapping), resources='t', regex=regex))
    collision = len(set(newnames)) != len(newnames)
    if kind == 'exc':
        if collision:
            return [], 'rejected-collision', False
        return [('raises/rename', '%s raises %s: %s' % (label, core.exc_sig(out), str(out)[:100]))], 'violated', True
    if collision:
        return [('collision-accepted/rename', '%s: two fields end up named the same (%r) and the run succeeds; a value is lost'
                 % (label, newnames))], 'violated', True
    exp_rows = [{nn: r[f] for f, nn in zip(fields, newnames)} for r in rows]
    v = base_checks(label, 'rename', out, other, newnames, exp_rows)
    return v, 'ok' if not v else 'violated', newnames != fields


def check_add_field(case):
    fields = case['fields']
    rows = table(fields)
    st, other = state(fields, rows)
    default = {'literal': 'D', 'none': None, 'callable': lambda row: 'c:' + row[fields[0]]}[case['default']]
    label = 'add_field(new, string, default=%s) on fields %r' % (case['default'], fields)
    kind, out = run_step(st, core.dataflows.add_field('new', 'string', default, resources='t'))
    if kind == 'exc':
        return [('raises/add_field', '%s raises %s' % (label, core.exc_sig(out)))], 'violated', True
    exp_rows = [dict(r, new=('c:' + r[fields[0]]) if case['default'] == 'callable' else default) for r in rows]
    v = base_checks(label, 'add_field', out, other, fields + ['new'], exp_rows)
    return v, 'ok' if not v else 'violated', True


NUMV = [2, 3.5, None, 0]


def check_computed(case):
    op, vals = case['op'], case['vals']        # vals: values of sources x, y (one row per combination in the case)
    fields = ['x', 'y', 'z']
    rows = [{'x': a, 'y': b, 'z': 'k%d' % i} for i, (a, b) in enumerate(vals)]
    st, other = state(fields, rows, {'x': 'number', 'y': 'number'})
    other[0].update({'x': 1, 'y': 2})
    st.rows[0][0].update({'x': 1, 'y': 2})
    srcs = case.get('sources', ['x', 'y'])          # one, two or three source columns (y may be listed twice)
    spec = {'target': 'new', 'operation': op, 'source': list(srcs)}
    if op == 'constant':
        spec = {'target': 'new', 'operation': 'constant', 'with': 'K'}
    elif op == 'join':
        spec['with'] = '-'
    elif op == 'format':
        spec = {'target': 'new', 'operation': 'format', 'with': '{z}:{x}'}
    elif op == 'callable':
        spec = {'target': {'name': 'new', 'type': 'string'}, 'operation': lambda row: 'c:%s' % row['z']}
    label = 'add_computed_field(%s over %r) on rows %r' % (op, srcs, vals)

    def expected(r):
        vs = [v for v in (r[c] for c in srcs) if v is not None]
        if op == 'constant':
            return 'K'
        if op == 'format':
            return '{z}:{x}'.format(**r)
        if op == 'callable':
            return 'c:%s' % r['z']
        if op == 'join':
            return '-'.join(str(v) for v in vs)
        if op == 'sum':
            return sum(vs)
        if not vs:
            return 'UNDEFINED'
        if op == 'avg':
            return sum(vs) / len(vs)
        if op == 'min':
            return min(vs)
        if op == 'max':
            return max(vs)
        if op == 'multiply':
            return functools.reduce(lambda a, b: a * b, vs)
        raise AssertionError(op)
    exp = [expected(r) for r in rows]
    kind, out = run_step(st, core.dataflows.add_computed_field([spec], resources='t'))
    if kind == 'exc':
        if 'UNDEFINED' in exp:
            return [], 'undefined-raises', False
        return [('raises/computed-%s' % op, '%s raises %s: %s' % (label, core.exc_sig(out), str(out)[:100]))], 'violated', True
    exp_rows = []
    for r, e, g in zip(rows, exp, out.rows[1]):
        if e == 'UNDEFINED':
            e = g.get('new')
            if e is not None:
                return [('undefined-value/computed-%s' % op, '%s: %s of no values silently yields %r' % (label, op, e))], 'violated', True
        exp_rows.append(dict(r, new=e))
    v = base_checks(label, 'computed-%s' % op, out, other, fields + ['new'], exp_rows)
    return v, 'ok' if not v else 'violated', True


def check_computed_chain(case):
    """One call, three specs: the 2nd and 3rd read the fields the earlier specs of the same call add."""
    vals = case['vals']
    fields = ['x', 'y', 'z']
    rows = [{'x': a, 'y': b, 'z': 'k%d' % i} for i, (a, b) in enumerate(vals)]
    st, other = state(fields, rows, {'x': 'number', 'y': 'number'})
    other[0].update({'x': 1, 'y': 2})
    st.rows[0][0].update({'x': 1, 'y': 2})
    specs = [{'target': 's1', 'operation': 'sum', 'source': ['x', 'y']},
             {'target': 's2', 'operation': 'sum', 'source': ['s1', 'x']},
             {'target': 's3', 'operation': 'format', 'with': '{z}:{s1}:{s2}'},
             {'target': {'name': 's4', 'type': 'string'}, 'operation': lambda row: 'c:%s' % row['s3']}]
    label = 'add_computed_field([s1=x+y, s2=s1+x, s3=format(z,s1,s2), s4=callable(s3)]) on rows %r' % (vals,)
    kind, out = run_step(st, core.dataflows.add_computed_field(copy.deepcopy(specs[:3]) + [specs[3]], resources='t'))
    if kind == 'exc':
        return [('raises/computed-chain', '%s raises %s: %s' % (label, core.exc_sig(out), str(out)[:100]))], 'violated', True
    exp_rows = []
    for r in rows:
        nn = lambda vs: [v for v in vs if v is not None]   # noqa
        s1 = sum(nn([r['x'], r['y']]))
        s2 = sum(nn([s1, r['x']]))
        s3 = '{z}:{s1}:{s2}'.format(z=r['z'], s1=s1, s2=s2)
        exp_rows.append(dict(r, s1=s1, s2=s2, s3=s3, s4='c:%s' % s3))
    v = base_checks(label, 'computed-chain', out, other, fields + ['s1', 's2', 's3', 's4'], exp_rows)
    return v, 'ok' if not v else 'violated', True


def check_find_replace2(case):
    """Two listed fields (+1 unlisted): a null in one field must not affect the others."""
    fields = ['s', 'w', 'u']
    rows = [{'s': a, 'w': b, 'u': 'keep'} for a, b in case['vals']]
    st, other = state(fields, rows)
    label = 'find_replace([s, w], a->z) on %r' % (case['vals'],)

    def rep(v, a='a', z='z'):
        return None if v is None else re.sub(a, z, str(v))
    # the two listed fields have different patterns; equal raw values occur in both columns
    spec = [{'name': 's', 'patterns': [{'find': 'a', 'replace': 'z'}]}, {'name': 'w', 'patterns': [{'find': 'a', 'replace': 'Q'}, {'find': 'x', 'replace': ''}]}]
    kind, out = run_step(st, core.dataflows.find_replace(spec, resources='t'))
    if kind == 'exc':
        return [('raises/find_replace', '%s raises %s' % (label, core.exc_sig(out)))], 'violated', True
    exp_rows = [{'s': rep(r['s']), 'w': rep(rep(r['w'], 'a', 'Q'), 'x', ''), 'u': 'keep'} for r in rows]
    v = base_checks(label, 'find_replace', out, other, fields, exp_rows)
    return v, 'ok' if not v else 'violated', True


def check_find_replace_multi(case):
    fields = ['s', 'u']
    vals = case['vals']
    rows = [{'s': v, 'u': 'keep'} for v in vals]
    st, other = state(fields, rows)
    spec = [{'name': 's', 'patterns': [{'find': 'a', 'replace': 'A'}]}, {'name': 'u', 'patterns': [{'find': 'keep', 'replace': 'kept'}]},
            {'name': 's', 'patterns': [{'find': 'c$', 'replace': 'C'}, {'find': 'A', 'replace': 'AA'}]}]
    label = 'find_replace with two entries for field s (a->A, then c$->C and A->AA) on %r' % (vals,)

    def expected(v):
        if v is None:
            return None
        for f, r_ in (('a', 'A'), ('c$', 'C'), ('A', 'AA')):
            v = re.sub(f, r_, v)
        return v
    kind, out = run_step(st, core.dataflows.find_replace(copy.deepcopy(spec), resources='t'))
    if kind == 'exc':
        return [('raises/find_replace', '%s raises %s: %s' % (label, core.exc_sig(out), str(out)[:100]))], 'violated', True
    exp_rows = [{'s': expected(r['s']), 'u': 'kept'} for r in rows]
    v = base_checks(label, 'find_replace', out, other, fields, exp_rows)
    return v, 'ok' if not v else 'violated', True


def check_find_replace(case):
    fields = ['s', 'u']
    vals, pats = case['vals'], case['pats']
    rows = [{'s': v, 'u': 'keep'} for v in vals]
    st, other = state(fields, rows)
    label = 'find_replace(s, %r) on values %r' % (pats, vals)

    def expected(v):
        if v is None:
            return None                       # a null cell holds no text to replace
        for p in pats:
            v = re.sub(p[0], p[1], str(v))
        return v
    kind, out = run_step(st, core.dataflows.find_replace([{'name': 's', 'patterns': [{'find': p[0], 'replace': p[1]} for p in pats]}],
                                                         resources='t'))
    if kind == 'exc':
        return [('raises/find_replace', '%s raises %s: %s' % (label, core.exc_sig(out), str(out)[:100]))], 'violated', True
    exp_rows = [{'s': expected(r['s']), 'u': 'keep'} for r in rows]
    v = base_checks(label, 'find_replace', out, other, fields, exp_rows)
    if v and v[0][0] == 'values/find_replace' and None in vals:
        g = [r['s'] for r in out.rows[1]]
        if all((a == b) or (x is None) for a, b, x in zip(g, [r['s'] for r in exp_rows], vals)):
            v = [('null-becomes-text/find_replace', '%s: a null cell came out as %r' % (label, [a for a, x in zip(g, vals) if x is None][0]))]
    return v, 'ok' if not v else 'violated', True


def cases(tier):
    out = []
    fieldsets = [list(c) for n in (2, 3) for c in itertools.combinations(NAMES, n)]
    for fs in fieldsets:
        reqs = [[a] for a in fs] + [[a, b] for a in fs for b in fs if a != b] + [['a|b'], ['b', 'a.*']] + \
            [[a, a] for a in fs[:2]] + [[fs[-1], '.*'], ['a.*', fs[0]], ['.*', '.*']]      # overlapping requests
        for req in reqs:
            for regex in (True, False):
                out.append({'proc': 'select', 'fields': fs, 'req': req, 'regex': regex})
                out.append({'proc': 'delete', 'fields': fs, 'req': req, 'regex': regex})
                if len(req) == 1 or len(fs) == 2:
                    out.append({'proc': 'delete_all', 'fields': fs, 'req': req, 'regex': regex})
                    out.append({'proc': 'select_all', 'fields': fs, 'req': req, 'regex': regex})
        maps = [[[a, 'z']] for a in fs] + [[['a(.*)', r'x\1']], [['(.+)', r'\1_']], [[fs[0], fs[1]]],
                                            [[fs[0], 'n1'], [fs[1], 'n2']], [['a|b', 'w']],
                                            [[fs[0], fs[1]], [fs[1], fs[0]]],            # swap
                                            [[fs[0], fs[1]], [fs[1], 'n3']],             # chain
                                            [[fs[1], 'n3'], [fs[0], fs[1]]]]             # chain, other order
        for mp in maps:
            for regex in (True, False):
                out.append({'proc': 'rename', 'fields': fs, 'map': mp, 'regex': regex})
        for d in ('literal', 'none', 'callable'):
            out.append({'proc': 'add_field', 'fields': fs, 'default': d})
    pairs = list(itertools.product(NUMV, repeat=2))
    for op in ('constant', 'sum', 'avg', 'min', 'max', 'multiply', 'join', 'format', 'callable'):
        for n in (1, 2):
            for vals in itertools.product(pairs, repeat=n):
                out.append({'proc': 'computed', 'op': op, 'vals': [list(v) for v in vals]})
    for op in ('sum', 'avg', 'min', 'max', 'multiply', 'join'):
        for srcs in (['x'], ['y'], ['x', 'y', 'x']):
            for vals in itertools.product(pairs, repeat=1):
                out.append({'proc': 'computed', 'op': op, 'vals': [list(v) for v in vals], 'sources': srcs})
    texts = ['abc', 'aXc', '', None, 'a.c']
    patsets = [[['a', 'z']], [['a.c', 'Q']], [['(a)(.)', r'\2\1']], [['a', 'b'], ['b', 'c']], [['c$', '']], [['x*', '-']],
               # a find without metacharacters is still a regex, its replacement still a template
               [['a', r'[\g<0>]']], [['bc', r'\\n']], [['X', r'\t']]]
    for ps in patsets:
        for n in (1, 2):
            for vals in itertools.product(texts, repeat=n):
                out.append({'proc': 'find_replace', 'vals': list(vals), 'pats': ps})
    for n in (1, 2):
        for vals in itertools.product(itertools.product(NUMV, repeat=2), repeat=n):
            out.append({'proc': 'computed_chain', 'vals': [list(v) for v in vals]})
    for then in ('rename', 'rename2', 'find_replace', 'delete'):
        out.append({'proc': 'reorder_then', 'then': then})
    for what in ('select', 'select_regex', 'delete', 'rename'):
        for eager in (False, True):
            out.append({'proc': 'two_res', 'what': what, 'eager': eager})
    # the same field named by several entries of one find_replace: all of them apply, in order
    for vals in itertools.product(texts, repeat=2):
        out.append({'proc': 'find_replace_multi', 'vals': list(vals)})
    for how in ('add_field', 'add_field_opts', 'computed_dict', 'computed_str'):
        for then in ('rename', 'delete', 'set_type', 'select'):
            out.append({'proc': 'add_then', 'how': how, 'then': then})
    cells = ['abc', None, 'xa']
    for n in (1, 2):
        for vals in itertools.product(itertools.product(cells, repeat=2), repeat=n):
            out.append({'proc': 'find_replace2', 'vals': [list(v) for v in vals]})
    return out


def run(run):
    cs = cases(run.tier)
    e2.run_cases(run, __name__, cs, batch=150)
    run.rule = ('field-name sets of 2-3 names drawn from {a, ab, a.b, a+, (a), b} in two resources (one selected); select/delete: '
                'every request of <=2 literal names in every order plus two regex requests, regex on/off; rename: single, '
                'back-reference, catch-all, collision, double and alternation maps, regex on/off; add_field: literal/null/'
                'callable default; add_computed_field: 9 operations x every table of <=2 rows over sources in {2, 3.5, null}^2; '
                'find_replace: 6 pattern lists (sequential, back-references) x every table of <=2 cells over 5 texts incl. null. '
                'distinct by case; non-trivial = the step changes the selected resource')
    run.explanation = 'reference models of 5-15 lines per processor; oracle: unselected resource identical, schema field list per the documented order rule, row keys == schema fields, values'


def replay(w):
    v, _, _ = check(w)
    return [(s, what, w) for s, what in v]
