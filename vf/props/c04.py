"""C04 - a failing step never yields a successful run (E4b fault injection at every position x phase x class)."""
import os
import csv
import copy
import json
import zipfile
import itertools

import tableschema

from .. import core, e1
from ..core import S, Env, mkstate, State, cj, h

LEVEL = 'fault_enumeration'


class PrivateError(Exception):
    pass


def exc_factory(name):
    return {
        'Private': lambda: PrivateError('injected'),
        'ValueError': lambda: ValueError('injected'),
        'KeyError': lambda: KeyError('injected'),
        'AssertionError': lambda: AssertionError('injected'),
        'StopIteration': lambda: StopIteration('injected'),
        'CastError': lambda: tableschema.exceptions.CastError('injected', errors=[tableschema.exceptions.CastError('inner')]),
        'CastErrorBare': lambda: tableschema.exceptions.CastError('injected'),
        'TSValidationError': lambda: tableschema.exceptions.ValidationError('injected', errors=[]),
        'UniqueKeyError': lambda: tableschema.exceptions.UniqueKeyError('injected'),
        'DFValidationError': lambda: core.dataflows.ValidationError('r', {'a': 1}, 0, None),
        'OSError': lambda: OSError('injected'),
        'UnicodeDecodeError': lambda: UnicodeDecodeError('utf-8', b'\xff', 0, 1, 'injected'),
        'MemoryError': lambda: MemoryError('injected'),
        # exceptions from the library's own hierarchy raised by a *step* are failures of that step like any other
        'DataflowsException': lambda: UserDataflowsError('injected'),
        'SourceLoadError': lambda: core.dataflows.base.exceptions.SourceLoadError('injected'),
    }[name]()


class UserDataflowsError(core.dataflows.base.exceptions.DataflowsException):
    pass


QUICK_CLASSES = ['Private', 'CastError', 'CastErrorBare', 'StopIteration', 'UniqueKeyError', 'UnicodeDecodeError', 'DataflowsException']
ALL_CLASSES = ['Private', 'ValueError', 'KeyError', 'AssertionError', 'StopIteration', 'CastError', 'CastErrorBare',
               'TSValidationError', 'UniqueKeyError', 'DFValidationError', 'OSError', 'UnicodeDecodeError', 'MemoryError',
               'DataflowsException', 'SourceLoadError']


# ---- injection ------------------------------------------------------------------------------
class Fault:
    """Shared between the injected wrapper/callback and the oracle."""

    def __init__(self, cls):
        self.cls = cls
        self.exc = None
        self.fired = 0

    def fire(self):
        self.fired += 1
        self.exc = exc_factory(self.cls)
        raise self.exc


def wrapper_step(fault, spec):
    """spec: ('pkg',) | ('row', r, k) | ('end', r) | ('iter-end',) | ('rowfn', k)"""
    kind = spec[0]
    if kind == 'pkg':
        def injected(package):
            fault.fire()
            yield package.pkg
            yield from package
        return injected
    if kind == 'iter-end':
        def injected(package):
            yield package.pkg
            yield from package
            fault.fire()
        return injected
    if kind == 'after-pkg':
        def injected(package):
            yield package.pkg
            fault.fire()             # before the first resource is handed on
            yield from package
        return injected
    if kind == 'rowfn':
        cnt = itertools.count()

        def injected(row):
            if next(cnt) == spec[1]:
                fault.fire()
        return injected

    def injected(package):
        yield package.pkg
        for ri, res in enumerate(package):
            def rows(ri=ri, res=res):
                for j, row in enumerate(res):
                    if kind == 'row' and ri == spec[1] and j == spec[2]:
                        fault.fire()
                    yield row
                if kind == 'end' and ri == spec[1]:
                    fault.fire()
            yield rows()
    return injected


@core.builder('c04_cb')
def _b_cb(step, env):
    """A built-in step whose user callback raises at its k-th call (k = env.cb_at; None = never)."""
    which = step['which']
    cnt = itertools.count()

    def maybe():
        if env.cb_fault is not None and env.cb_target == step.get('id') and next(cnt) == env.cb_at:
            env.cb_fault.fire()
    df = core.dataflows
    if which == 'filter':
        return df.filter_rows(condition=lambda row: (maybe(), True)[1])
    if which == 'add_field':
        return df.add_field('cbf', 'integer', default=lambda row: (maybe(), 1)[1])
    if which == 'sort':
        return df.sort_rows(lambda row: (maybe(), '%05d' % row['a'])[1])
    if which == 'transform':
        return df.set_type('a', type='integer', resources=None, transform=lambda v: (maybe(), v)[1])
    if which == 'validator':
        def validator(v):
            maybe()
            return True
        return df.validate('a', validator)
    if which == 'on_error':
        def handler(name, row, i, e):
            maybe()
            return True
        return df.set_type('b', type='integer', resources='r1', on_error=handler)   # b holds text: handler called per row
    if which == 'finalizer':
        return df.finalizer(lambda: maybe())
    if which == 'par_rowfunc':
        return df.parallelize(lambda row: maybe(), 1)
    if which == 'par_predicate':
        return df.parallelize(lambda row: None, 1, predicate=lambda row: (maybe(), True)[1])
    if which == 'computed':
        return df.add_computed_field([{'target': 'cc', 'operation': lambda row: (maybe(), 1)[1]}])
    if which == 'sources_sub':
        # a sub-flow handed to sources() whose step fails in its end-of-stream code
        def ender(package):
            yield package.pkg
            yield from package
            maybe()
        return df.sources(df.Flow([{'sa': 1}, {'sa': 2}], ender), [{'sb': 'x'}])
    if which == 'sources_sub_row':
        def rower(row):
            maybe()
        return df.sources(df.Flow([{'sa': 1}, {'sa': 2}], rower))
    if which == 'cond_predicate':
        return df.conditional(lambda dp: (maybe(), True)[1], df.Flow(df.add_field('cp', 'integer', 1)))
    if which == 'cond_factory':
        return df.conditional(lambda dp: True, lambda dp: (maybe(), df.Flow(df.add_field('cf', 'integer', 1)))[1])
    raise AssertionError(which)


@core.builder('c04_gen')
def _b_gen(step, env):
    def gen():
        for i in range(step['n']):
            if env.cb_fault is not None and env.cb_target == 'source' and i == env.cb_at:
                env.cb_fault.fire()
            yield {'a': i, 'b': 't%d' % i}
    return gen()


@core.builder('c04_stream_fileobj')
def _b_stream_fileobj(step, env):
    import io
    return core.dataflows.stream(io.StringIO())


@core.builder('c04_iterobj')
def _b_iterobj(step, env):
    """An iterable *object* whose __iter__ does the work up front (open a connection, run a query) and may fail there."""
    class Query:
        def __iter__(self):
            if env.cb_fault is not None and env.cb_target == 'source-iter' and env.cb_at == 0:
                env.cb_fault.fire()
            return iter([{'a': i, 'b': 't%d' % i} for i in range(step['n'])])
    return Query()


@core.builder('c04_load_csv')
def _b_load_csv(step, env):
    p = os.path.join(env.scratch, 'in.csv')
    with open(p, 'w', newline='') as f:
        w = csv.writer(f)
        w.writerow(['a', 'b'])
        for i in range(4):
            w.writerow([i, 't%d' % i])
    return core.dataflows.load(p, name='r1')


@core.builder('c04_load_dp_bad')
def _b_load_dp_bad(step, env):
    """A data package whose CSV holds an uncastable cell: the fault is the source's own CastError."""
    d = os.path.join(env.scratch, 'indp')
    os.makedirs(d, exist_ok=True)
    with open(os.path.join(d, 'r1.csv'), 'w', newline='') as f:
        f.write('a,b\n1,x\nnotanumber,y\n3,z\n' if step.get('bad', True) else 'a,b\n1,x\n2,y\n3,z\n')
    desc = {'name': 'p', 'resources': [{'name': 'r1', 'path': 'r1.csv', 'profile': 'tabular-data-resource',
                                        'schema': {'fields': [{'name': 'a', 'type': 'integer'},
                                                              {'name': 'b', 'type': 'string'}]}}]}
    with open(os.path.join(d, 'datapackage.json'), 'w') as f:
        json.dump(desc, f)
    return core.dataflows.load(os.path.join(d, 'datapackage.json'))


def P0():
    return mkstate([('r1', [('a', 'integer'), ('b', 'string')], [{'a': 3, 'b': 'x'}, {'a': 1, 'b': 'y'}, {'a': 2, 'b': 'z'}]),
                    ('r2', [('a', 'integer'), ('c', 'string')], [{'a': 1, 'c': 'p'}, {'a': 3, 'c': 'q'}])])


SRC = {'op': 'from_state', 'state': None}   # filled lazily

PIPELINES = {
    'rowwise': [SRC, S('add_field', 'z', 'integer', 7), S('set_type', 'a', type='number', resources=None),
                S('find_replace', [{'name': 'b', 'patterns': [{'find': 'x', 'replace': 'w'}]}], resources='r1'),
                S('delete_fields', ['z'])],
    'concat': [SRC, S('concatenate', {'a': []}, {'name': 'cc'}), S('add_computed_field', [{'target': 's', 'operation': 'sum', 'source': ['a']}])],
    'join': [SRC, S('join', 'r1', ['a'], 'r2', ['a'], {'b': {'aggregate': 'last'}}, source_delete=False), S('sort_rows', '{a}')],
    'duplicate': [SRC, S('duplicate', 'r1'), S('rename_fields', {'a': 'a2'})],
    'unpivot': [SRC, S('unpivot', [{'name': 'b', 'keys': {'k': 'b'}}], [{'name': 'k', 'type': 'string'}],
                       {'name': 'v', 'type': 'string'}, resources='r1'), S('validate')],
    'dedup': [SRC, S('set_primary_key', ['a']), S('deduplicate'), S('update_resource', None, title='T'),
              S('printer', header_print={'$fn': 'e1_printer_sink', 'env': True}, table_print={'$fn': 'e1_printer_sink', 'env': True})],
    'callbacks': [SRC, {'op': 'c04_cb', 'which': 'filter', 'id': 'filter'}, {'op': 'c04_cb', 'which': 'add_field', 'id': 'add_field'},
                  {'op': 'c04_cb', 'which': 'transform', 'id': 'transform'}, {'op': 'c04_cb', 'which': 'validator', 'id': 'validator'},
                  {'op': 'c04_cb', 'which': 'computed', 'id': 'computed'}],
    'callbacks2': [SRC, {'op': 'c04_cb', 'which': 'sort', 'id': 'sort'}, {'op': 'c04_cb', 'which': 'on_error', 'id': 'on_error'},
                   {'op': 'c04_cb', 'which': 'finalizer', 'id': 'finalizer'}],
    'load_csv': [{'op': 'c04_load_csv'}, S('add_field', 'z', 'integer', 7)],
    'checkpoint': [SRC, S('add_field', 'z', 'integer', 7), {'op': 'checkpoint_first'}, S('add_field', 'y', 'integer', 8)],
    'dumps': [SRC, S('dump_to_path', {'$path': 'dump'}), S('add_field', 'z', 'integer', 7),
              S('dump_to_zip', {'$path': 'out.zip'}), S('stream', {'$path': 'st/stream.ndjson'})],
    'dump_json_last': [SRC, S('filter_rows', equals=[{'a': 1}, {'a': 2}]), S('dump_to_path', {'$path': 'dumpj'}, format='json')],
    'nested': [SRC, {'op': 'flow', 'steps': [S('add_field', 'z', 'integer', 7), S('filter_rows', equals=[{'a': 1}])], 'positions': [1, 2]},
               {'op': 'conditional_true', 'steps': [S('rename_fields', {'a': 'a2'})], 'positions': [3]}],
    'parallelize': [SRC, {'op': 'c04_cb', 'which': 'par_rowfunc', 'id': 'par_rowfunc'}, S('add_field', 'z', 'integer', 7)],
    'parallelize_pred': [SRC, {'op': 'c04_cb', 'which': 'par_predicate', 'id': 'par_predicate'}],
    'conditional': [SRC, S('add_field', 'z', 'integer', 7), {'op': 'c04_cb', 'which': 'cond_predicate', 'id': 'cond_predicate'},
                    S('delete_fields', ['z']), {'op': 'c04_cb', 'which': 'cond_factory', 'id': 'cond_factory'},
                    S('dump_to_path', {'$path': 'dump'})],
    # a step fails on rows of a resource that a later step deletes; a dumper sits in between
    'delete_later': [SRC, S('add_field', 'z', 'integer', 7), S('dump_to_path', {'$path': 'dump'}), S('delete_resource', 'r1'),
                     S('add_field', 'y', 'integer', 8)],
    'delete_later2': [SRC, S('add_field', 'z', 'integer', 7), S('delete_resource', 'r2'), S('dump_to_path', {'$path': 'dump'})],
    'stream_fileobj': [SRC, S('add_field', 'z', 'integer', 7), {'op': 'c04_stream_fileobj'}, S('join', 'r1', ['a'], 'r2', ['a'], {'b': {'aggregate': 'last'}}),
                       S('add_field', 'y', 'integer', 8)],
    'sources_sub': [SRC, {'op': 'c04_cb', 'which': 'sources_sub', 'id': 'sources_sub'}, S('dump_to_path', {'$path': 'dump'})],
    'sources_sub_row': [SRC, {'op': 'c04_cb', 'which': 'sources_sub_row', 'id': 'sources_sub_row'}, S('dump_to_path', {'$path': 'dump'})],
    'iterobj': [{'op': 'c04_iterobj', 'n': 5}, S('add_field', 'z', 'integer', 7), S('dump_to_path', {'$path': 'dump'})],
    'iterobj_second': [SRC, {'op': 'c04_iterobj', 'n': 3}, S('dump_to_path', {'$path': 'dump'})],
    # resources that keep their rows but lose every field (rows are empty dicts from then on)
    'nofields': [SRC, S('delete_fields', ['a', 'b', 'c'], resources=None), S('dump_to_path', {'$path': 'dump'})],
    'nofields_validate': [SRC, S('delete_fields', ['a', 'b', 'c'], resources=None), S('validate')],
    'generator': [{'op': 'c04_gen', 'n': 130}, S('add_field', 'z', 'integer', 7), S('dump_to_path', {'$path': 'dump'})],
}
DRAINED = {'delete_later', 'delete_later2'}
ARTEFACTS = {   # step op -> how to detect that it committed
    'dump_to_path': 'dp', 'dump_to_zip': 'zip', 'stream': 'ndjson', 'checkpoint_first': 'cp',
}
# positions restart inside nested Flows (checkpoint is one): only flat chains have an unambiguous numbering
FLAT = {k for k, v in PIPELINES.items() if not any(s.get('op') in ('flow', 'conditional_true', 'checkpoint_first') for s in v)}


ALL_ROWS_FLOW = {'rowwise', 'nofields', 'nofields_validate'}


def committed_artefacts(env, steps, positions):
    """Set of step indexes (in the faulted chain) whose artefact is committed on disk."""
    out = set()
    for idx, (s, p) in enumerate(zip(steps, positions)):
        kind = ARTEFACTS.get(s.get('op'))
        if not kind:
            continue
        env.pos = p
        if kind == 'dp':
            d = core.resolve(s['a'][0], env)
            if os.path.exists(os.path.join(d, 'datapackage.json')):
                out.add(idx)
        elif kind == 'zip':
            f = core.resolve(s['a'][0], env)
            if os.path.exists(f) and zipfile.is_zipfile(f):
                out.add(idx)
        elif kind == 'ndjson':
            f = core.resolve(s['a'][0], env)
            if os.path.exists(f):
                out.add(idx)
        elif kind == 'cp':
            f = os.path.join(env.path('checkpoints'), 'cp%d' % p, 'stream.ndjson')
            if os.path.exists(f):
                out.add(idx)
    return out


def run_case(case):
    """case: {'pipe', 'cls', 'entry', 'inject': ('wrap', index, spec) | ('cb', id, k)}.
    Returns (violations, outcome, nontrivial)."""
    pipe, cls, entry, inject = case['pipe'], case['cls'], case['entry'], tuple(case['inject'])
    steps = [dict(s) for s in PIPELINES[pipe]]
    if steps[0] is SRC or steps[0].get('op') == 'from_state':
        steps[0] = {'op': 'from_state', 'state': P0()}
    positions = list(range(len(steps)))
    fault = Fault(cls)
    label = '%s pipeline, %s injected %s, %s()' % (pipe, cls, list(inject), entry)
    with core.scratch_dir() as d:
        env = Env(d)
        env.expected_markers = set()
        env.cb_fault, env.cb_target, env.cb_at = None, None, None
        fail_index = None
        if inject[0] == 'cb':
            env.cb_fault, env.cb_target, env.cb_at = fault, inject[1], inject[2]
            if inject[1] == 'source':
                fail_index = 0
            elif inject[1] == 'source-iter':
                fail_index = [i for i, s in enumerate(steps) if s.get('op') == 'c04_iterobj'][0]
            else:
                fail_index = [i for i, s in enumerate(steps) if s.get('id') == inject[1]][0]
        links = []
        for s, p in zip(steps, positions):
            env.pos = p
            links.append(e1.build_link(s, env))
        if inject[0] == 'wrap':
            at = inject[1]               # insert after step index at-1, i.e. at list index `at`
            links.insert(at, wrapper_step(fault, tuple(inject[2])))
            steps.insert(at, {'op': 'injected'})
            positions.insert(at, 99)
            fail_index = at
        flow = core.Flow(*links)
        res = None
        try:
            with core.fake_mp():
                if entry == 'process':
                    res = ('ok', flow.process())
                else:
                    res = ('ok', flow.results())
        except core.CaseTimeout:
            raise
        except BaseException as e:
            res = ('exc', e)
        committed = committed_artefacts(env, steps, positions)
    viol = []
    if not fault.fired and ((inject[0] == 'wrap' and inject[1] == 0 and inject[2][0] in ('pkg', 'iter-end')) or
                            (inject[0] == 'cb' and inject[1] in ('sources_sub', 'sources_sub_row') and inject[2] == 0)):
        # the package phase and the end-of-stream code of a step run wherever it stands in the chain, inside a sub-flow handed
        # to sources() as well
        return [('fault-skipped', '%s: the run returned normally and the failing code was never executed' % label)], 'violated', True
    if not fault.fired:
        if pipe in DRAINED and inject[0] == 'wrap' and inject[2][0] in ('row', 'end') and \
                inject[1] <= [i for i, s_ in enumerate(PIPELINES[pipe]) if s_.get('op') == 'delete_resource'][0]:
            # every row of every resource passes every step placed before a delete_resource (which reads what it deletes to
            # its end): a step failing on such a row must get the chance to fail
            return [('fault-skipped', '%s: the run returned normally and the failing step was never asked for that row - rows of '
                     'a resource deleted further down were not pulled through the steps before it' % label)], 'violated', True
        if pipe in ALL_ROWS_FLOW and inject[0] == 'wrap' and inject[2][0] in ('row', 'end'):
            # no step of these pipelines drops or holds back a row: every row of every resource reaches every position
            return [('fault-skipped', '%s: the run returned normally and the failing step was never asked for that row although '
                     'no step of the pipeline removes rows' % label)], 'violated', True
        return [], 'fault-not-reached', False
    if res[0] == 'ok':
        viol.append(('returned-normally', '%s: the run returned normally although the step raised' % label))
    else:
        e = res[1]
        if not isinstance(e, core.dataflows.base.exceptions.ProcessorError):
            viol.append(('not-processor-error', '%s: raised %s instead of ProcessorError' % (label, type(e).__name__)))
        else:
            c = e.cause
            chain, seen = [], 0
            while c is not None and seen < 5:
                chain.append(c)
                c = c.__cause__ or (c.__context__ if isinstance(c, RuntimeError) else None)
                seen += 1
            if not any(x is fault.exc for x in chain):
                viol.append(('cause-lost', '%s: ProcessorError.cause is %s(%s), not the raised exception'
                             % (label, type(e.cause).__name__, str(e.cause)[:80])))
            elif e.cause is not fault.exc and not isinstance(fault.exc, StopIteration) \
                    and type(e.cause).__name__ != 'SourceLoadError':
                viol.append(('cause-wrapped', '%s: ProcessorError.cause is %s wrapping the raised exception'
                             % (label, type(e.cause).__name__)))
            if inject[0] == 'wrap' and inject[2][0] == 'pkg' and pipe in FLAT and not viol:
                if e.processor_position != fail_index + 1:
                    viol.append(('wrong-position', '%s: processor_position=%r, failing step is #%d'
                                 % (label, e.processor_position, fail_index + 1)))
    late = sorted(i for i in committed if i > fail_index)
    if late:
        viol.append(('committed-after-failure', '%s: %s positioned after the failure committed its output'
                     % (label, [steps[i]['op'] for i in late])))
    return viol, 'ok' if not viol else 'violated', True


def sig_of(case, oracle):
    inj = case['inject']
    if inj[0] == 'wrap':
        spec = inj[2]
        phase = {'pkg': 'package-phase', 'row': 'row', 'end': 'resource-end', 'iter-end': 'iterator-end', 'rowfn': 'row-fn', 'after-pkg': 'after-package'}[spec[0]]
        where = 'wrapper'
    else:
        phase, where = 'callback', inj[1]
    if oracle in ('returned-normally', 'cause-lost', 'not-processor-error', 'cause-wrapped'):
        if case['pipe'].startswith('parallelize'):
            # one finding per mechanism, whatever the exception class
            if where == 'wrapper':
                mech = 'fault-upstream-of-parallelize' if inj[1] == 1 else 'fault-downstream-of-parallelize'
            else:
                mech = {'par_rowfunc': 'row-function', 'par_predicate': 'predicate'}[where]
            return '%s/parallelize/%s' % (oracle, mech)
        return '%s/%s/%s' % (oracle, case['cls'], phase if where == 'wrapper' else where)
    return '%s/%s/%s' % (oracle, case['pipe'], phase)


def cases_for(pipe, classes):
    steps = PIPELINES[pipe]
    n = len(steps)
    shapes = [3, 2]      # rows per resource of P0 (upper bound: fault-not-reached is reported, not hidden)
    specs = [('pkg',), ('iter-end',), ('after-pkg',), ('rowfn', 0), ('rowfn', 2)]
    for r, rows in enumerate(shapes):
        for k in sorted({0, rows // 2, rows - 1}):
            specs.append(('row', r, k))
        specs.append(('end', r))
    out = []
    for cls in classes:
        for entry in ('process', 'results'):
            for at in range(1, n + 1):
                for spec in specs:
                    out.append({'pipe': pipe, 'cls': cls, 'entry': entry, 'inject': ['wrap', at, list(spec)]})
            if pipe in ('rowwise', 'dumps', 'checkpoint', 'delete_later'):
                # a step placed before the first source: no resource reaches it, its package and end-of-stream code still run
                for spec in (('pkg',), ('iter-end',)):
                    out.append({'pipe': pipe, 'cls': cls, 'entry': entry, 'inject': ['wrap', 0, list(spec)]})
            for s in steps:
                if s.get('op') == 'c04_cb':
                    for k in (0, 1, 2):
                        out.append({'pipe': pipe, 'cls': cls, 'entry': entry, 'inject': ['cb', s['id'], k]})
                if s.get('op') == 'c04_iterobj':
                    out.append({'pipe': pipe, 'cls': cls, 'entry': entry, 'inject': ['cb', 'source-iter', 0]})
                if s.get('op') == 'c04_gen':
                    for k in (0, 50, 99, 100, 129):
                        out.append({'pipe': pipe, 'cls': cls, 'entry': entry, 'inject': ['cb', 'source', k]})
    return out


def check_batch(batch):
    out = {'n': 0, 'keys': [], 'outcomes': {}, 'viol': []}
    seen = set()
    for case in batch:
        viol, outcome, nontrivial = run_case(case)
        out['n'] += 1
        out['outcomes'][outcome] = out['outcomes'].get(outcome, 0) + 1
        if nontrivial:
            out['keys'].append(h(case))
        for oracle, what in viol:
            sig = sig_of(case, oracle)
            if sig not in seen:
                seen.add(sig)
                out['viol'].append((sig, what, case))
    out['sample'] = batch[0]
    return out


def source_cast_cases():
    """The source's own CastError (uncastable cell in a loaded data package)."""
    out = [{'entry': e, 'tail': t} for e in ('process', 'results') for t in (False, True)]
    # a JSON / ndjson file holding an item that is not a row, inside and beyond the inference sample
    for kind in ('json', 'ndjson'):
        for at in (1, 150):
            for e in ('process', 'results'):
                out.append({'entry': e, 'tail': True, 'badfile': kind, 'at': at})
    return out


def run_source_cast(case):
    with core.scratch_dir() as d:
        env = Env(d)
        env.pos = 0
        if case.get('badfile'):
            p = os.path.join(d, 'items.' + case['badfile'])
            items = [{'a': i, 'b': 't%d' % i} for i in range(200)]
            items[case['at']] = 12345          # a scalar where a row object belongs
            with open(p, 'w') as f:
                if case['badfile'] == 'json':
                    json.dump(items, f)
                else:
                    f.write('\n'.join(json.dumps(x) for x in items) + '\n')
            links = [core.dataflows.load(p, name='r1')]
        else:
            links = [core.build({'op': 'c04_load_dp_bad'}, env)]
        env.pos = 1
        if case['tail']:
            links.append(core.dataflows.dump_to_path(env.path('dump')))
        try:
            r = core.Flow(*links).process() if case['entry'] == 'process' else core.Flow(*links).results()
            res = ('ok', r)
        except Exception as e:
            res = ('exc', e)
        dumped = case['tail'] and os.path.exists(os.path.join(env.path('dump'), 'datapackage.json'))
    viol = []
    label = 'load(datapackage.json with an uncastable cell)%s, %s()' % (' + dump_to_path' if case['tail'] else '', case['entry'])
    if case.get('badfile'):
        label = 'load(%s file whose item #%d is a number, not a row) + dump_to_path, %s()' % (case['badfile'], case['at'], case['entry'])
    if res[0] == 'ok':
        viol.append(('returned-normally/source-cast-error', '%s: returned normally (rows after the bad cell are missing)' % label, case))
    elif not isinstance(res[1], core.dataflows.base.exceptions.ProcessorError):
        viol.append(('not-processor-error/source-cast-error', '%s: raised %s' % (label, type(res[1]).__name__), case))
    if dumped:
        viol.append(('committed-after-failure/source-cast-error', '%s: the dump descriptor was committed' % label, case))
    return {'n': 1, 'keys': [h(['srccast', case])], 'outcomes': {'ok' if not viol else 'violated': 1}, 'viol': viol}


def run(run):
    classes = QUICK_CLASSES if run.tier == 'quick' else ALL_CLASSES
    batches = []
    for pipe in PIPELINES:
        cs = cases_for(pipe, classes)
        for i in range(0, len(cs), 40):
            batches.append(cs[i:i + 40])
    k = run.seed % len(batches)
    batches = batches[k:] + batches[:k]
    for res in run.map(check_batch, batches, chunksize=1, limit=1200):
        run.absorb(res)
    for res in run.map(run_source_cast, source_cast_cases(), chunksize=1):
        run.absorb(res)
    run.rule = ('%d representative pipelines x every insertion index x phase (package definition; row first/middle/last '
                'and end of each resource; end of the resource iterator; row-function call 0/2) x exception class (%d) x '
                'entry point (process, results); plus every built-in user callback (filter condition, add_field default, '
                'computed operation, sort key, set_type transform, validator, on_error handler, finalizer callback, '
                'parallelize row function and predicate) at its call 0/1/2, a source generator failing before/inside/after '
                'the inference sample, and a loaded data package with an uncastable cell. non-trivial = the fault fired'
                % (len(PIPELINES), len(classes)))
    run.explanation = ('oracle: ProcessorError raised, its cause (or the cause\'s __cause__ for PEP-479/SourceLoadError '
                       'wrapping) is the injected exception object, package-phase faults report the failing position, and no '
                       'datapackage.json / zip central directory / stream.ndjson / checkpoint of a later step exists')
    run.assumptions.append('parallelize runs on the in-process thread stand-in with a shortened (2 s) join grace period')
    run.extra['classes'] = classes


def replay(w):
    if 'pipe' not in w:
        return run_source_cast(w)['viol']
    viol, outcome, _ = run_case(w)
    return [(sig_of(w, o), what, w) for o, what in viol]
