"""C19 - a dump descriptor is written only after its data files are complete (E4a crash states)."""
import os
import json
import hashlib
import itertools

from .. import core, fsrec
from ..core import mkstate, h

LEVEL = 'fault_enumeration'


def scenario_state(shape, nested, dotted=False):
    res = []
    for i, n in enumerate(shape):
        res.append(('r%d' % i, [('id', 'integer'), ('t', 'string'), ('x', 'number')],
                    [{'id': 10 * i + j, 't': 'v%dé,"q"' % j, 'x': 1.5 * j} for j in range(n)]))
    st = mkstate(res)
    if nested:
        for i, r in enumerate(st.desc['resources']):
            r['path'] = 'data/sub%d/r%d.csv' % (i, i)
    if dotted:
        # legal relative paths whose first component starts with a dot (hidden directory, hidden file, explicit ./)
        for i, r in enumerate(st.desc['resources']):
            r['path'] = ['.cache/r%d.csv', '.r%d.csv', './plain/r%d.csv'][i % 3] % i
    return st


def check_state(state):
    """The invariant on one crash state: no parseable datapackage.json, or everything it lists is complete."""
    files = state[0]
    if 'datapackage.json' not in files:
        return None, 'no-descriptor'
    try:
        desc = json.loads(files['datapackage.json'].decode('utf-8'))
        assert isinstance(desc, dict) and 'resources' in desc
    except Exception:
        return None, 'descriptor-unparseable'
    for r in desc['resources']:
        p = r['path']
        if p not in files:
            return 'descriptor present but %s is missing' % p, 'violated'
        data = files[p]
        if 'bytes' in r and r['bytes'] != len(data):
            return 'descriptor present but %s has %d bytes, recorded %d' % (p, len(data), r['bytes']), 'violated'
        if 'hash' in r and r['hash'] != hashlib.md5(data).hexdigest():
            return 'descriptor present but %s does not match its recorded hash' % p, 'violated'
    return None, 'descriptor-complete'


def check_scenario(sc):
    shape, fmt, filehash, nested = sc['shape'], sc['format'], sc['filehash'], sc['nested']
    out = {'n': 0, 'keys': [], 'outcomes': {}, 'viol': []}
    with core.scratch_dir() as d:
        root = os.path.join(d, 'out')
        rec = fsrec.Recorder(root)
        st = scenario_state(shape, nested, sc.get('dotted'))
        kw = {}
        if sc.get('counters'):
            kw['counters'] = {'no-hash': {'resource-hash': None}, 'no-bytes': {'resource-bytes': None, 'datapackage-bytes': None}}[sc['counters']]
        def eager(package):
            # a downstream step that asks for every resource before it reads any row (e.g. to reorder them)
            yield package.pkg
            for r in list(package):
                yield r
        tail = [eager] if sc.get('eager') else []
        tag = '/eager-consumer' if sc.get('eager') else ''
        source = core.from_state(st)
        cwd_before = os.getcwd()
        if sc.get('redump'):
            # what is dumped is an earlier dump loaded back: the incoming descriptor already carries sizes, hashes and counts
            first = os.path.join(d, 'first')
            core.Flow(core.from_state(st), core.dataflows.dump_to_path(first, format=fmt, add_filehash_to_path=filehash)).process()
            source = core.dataflows.load(os.path.join(first, 'datapackage.json'))
            tag = '/redump'
        if sc.get('cwd_copy'):
            # the current directory already holds a hashed copy of the same data (an earlier dump with out_path='.')
            elsewhere = os.path.join(d, 'cwd')
            os.makedirs(elsewhere)
            os.chdir(elsewhere)
            core.Flow(core.from_state(st), core.dataflows.dump_to_path('.', format=fmt, add_filehash_to_path=True)).process()
            tag = '/cwd-holds-copy'
        out_arg = root
        if sc.get('relative_chdir'):
            # the dumper is built with a relative out_path in one directory and executed after the process moved to another
            # one: descriptor and data files must still end up together (root is where they land)
            built_in = os.path.join(d, 'built-here')
            run_in = os.path.join(d, 'run-here')
            os.makedirs(built_in)
            os.makedirs(run_in)
            os.chdir(built_in)
            out_arg = 'out'
            root = os.path.join(run_in, 'out')
            rec = fsrec.Recorder(d)
            tag = '/relative-path-chdir'
        flow = core.Flow(source,
                         core.dataflows.dump_to_path(out_arg, format=fmt, add_filehash_to_path=filehash, **kw), *tail)
        if sc.get('relative_chdir'):
            os.chdir(run_in)
        if sc.get('second_run'):
            # the same Flow (hence the same dumper object) has already been executed once; its output was removed since
            import shutil
            flow.process()
            shutil.rmtree(root, ignore_errors=True)
            tag = '/second-execution'
        try:
            with rec.active():
                flow.process()
        finally:
            os.chdir(cwd_before)
        states = rec.crash_states()
        seen = set()
        if sc.get('relative_chdir'):
            # the recorder watched the whole scratch directory: look at each directory that holds a descriptor
            def split(cs):
                files, dirs = cs
                outs = {}
                for p_, data in files.items():
                    top = p_.split(os.sep)
                    if 'out' in top:
                        i = top.index('out')
                        outs.setdefault(os.sep.join(top[:i + 1]), {})[os.sep.join(top[i + 1:])] = data
                return [(v, frozenset()) for v in outs.values()] or [({}, frozenset())]
            states = [(label + ' [%d]' % k, sub) for label, cs in states for k, sub in enumerate(split(cs))]
        for label, cs in states:
            what, outcome = check_state(cs)
            out['n'] += 1
            out['outcomes'][outcome] = out['outcomes'].get(outcome, 0) + 1
            out['keys'].append(h([sc, fsrec.state_key(cs)]))
            if what and 'v' not in seen:
                seen.add('v')
                out['viol'].append(('descriptor-before-data/%s%s' % (fmt, tag), 'dump_to_path(%s%s)%s of shape %r, kill %s: %s' %
                                    (fmt, ', add_filehash_to_path' if filehash else '',
                                     ' followed by a step that requests all resources before reading rows' if sc.get('eager') else tag.replace('/', ' '), shape, label, what),
                                    dict(sc, label=label)))
        # interruptions that unwind through Python: OSError at the k-th fs operation, the source raising at row j
        import gc
        nops = len(rec.ops)

        def after_failure(label, make_flow, fail_at=None):
            r2 = os.path.join(d, 'f')
            import shutil
            shutil.rmtree(r2, ignore_errors=True)
            frec = fsrec.Recorder(r2, fail_at=fail_at)
            try:
                with frec.active():
                    make_flow(r2).process()
                failed = False
            except core.CaseTimeout:
                raise
            except Exception:
                failed = True
            gc.collect()
            gc.collect()
            state = fsrec._snapshot(r2)
            what, outcome = check_state(state)
            out['n'] += 1
            out['outcomes']['exc:' + outcome] = out['outcomes'].get('exc:' + outcome, 0) + 1
            out['keys'].append(h([sc, label]))
            if what and 'e' not in seen:
                seen.add('e')
                out['viol'].append(('descriptor-after-failure/%s%s' % (fmt, tag), 'dump_to_path(%s)%s of shape %r, %s: %s' % (fmt, ' + eager consumer' if tag else '', shape, label, what),
                                    dict(sc, label=label)))
        for k in range(nops):
            after_failure('OSError at fs op #%d' % k, lambda root2: core.Flow(
                core.from_state(scenario_state(shape, nested, sc.get('dotted'))), core.dataflows.dump_to_path(root2, format=fmt, add_filehash_to_path=filehash, **kw), *tail), fail_at=k)
        total = sum(shape)
        for j in range(total):
            def mk(root2, j=j):
                cnt = [0]

                def boom(i, jj):
                    cnt[0] += 1
                    if cnt[0] == j + 1:
                        raise RuntimeError('source fails at row %d' % j)
                return core.Flow(core.from_state(scenario_state(shape, nested, sc.get('dotted')), on_pull=boom),
                                 core.dataflows.dump_to_path(root2, format=fmt, add_filehash_to_path=filehash, **kw), *tail)
            after_failure('source raising at row %d of %d' % (j, total), mk)
        final_what, final_outcome = check_state(fsrec._snapshot(root) if sc.get('relative_chdir') else rec.points[-1][1])
        if final_outcome != 'descriptor-complete' and not seen:
            # the completed dump itself must satisfy the marker reading (else the oracle would be vacuous)
            out['viol'].append(('final-state/%s%s' % (fmt, '+filehash' if filehash else ''),
                                'completed dump_to_path(%s%s) of shape %r: %s' %
                                (fmt, ', add_filehash_to_path' if filehash else '', shape, final_what or final_outcome),
                                dict(sc, label='end')))
    out['sample'] = dict(sc, fs_ops=[o[1] + ' ' + o[2] for o in rec.ops][:14], crash_states=len(states))
    return out


def scenarios(tier):
    out = []
    rows = (0, 1, 3)
    for nres in (1, 2, 3):
        for sh in itertools.product(rows, repeat=nres):
            for fmt in ('csv', 'json'):
                for fh in (False, True):
                    for nested in ((False, True) if tier == 'thorough' or nres == 2 else (False,)):
                        out.append({'shape': list(sh), 'format': fmt, 'filehash': fh, 'nested': nested})
    # documented counter options change which of size / hash the descriptor records
    for fmt in ('csv', 'json'):
        for counters in ('no-hash', 'no-bytes'):
            for sh in ([1], [3, 0], [1, 3, 1]):
                out.append({'shape': sh, 'format': fmt, 'filehash': False, 'nested': False, 'counters': counters})
    for fmt in ('csv', 'json'):
        for sh in ([1, 1], [3, 0, 1]):
            out.append({'shape': sh, 'format': fmt, 'filehash': False, 'nested': False, 'second_run': True})
    for fmt in ('csv', 'json'):
        out.append({'shape': [1, 1], 'format': fmt, 'filehash': False, 'nested': False, 'relative_chdir': True})
    for fmt in ('csv', 'json'):
        for sh in ([1], [3, 1]):
            out.append({'shape': sh, 'format': fmt, 'filehash': False, 'nested': False, 'redump': True})
            out.append({'shape': sh, 'format': fmt, 'filehash': True, 'nested': False, 'redump': True})
            out.append({'shape': sh, 'format': fmt, 'filehash': True, 'nested': False, 'cwd_copy': True})
    for fmt in ('csv', 'json'):
        for fh in (False, True):
            out.append({'shape': [1, 3, 1], 'format': fmt, 'filehash': fh, 'nested': False, 'dotted': True})
    # the dumper is not the last step and its consumer is eager
    for fmt in ('csv', 'json'):
        for sh in ([1], [1, 1], [3, 0, 1]):
            out.append({'shape': sh, 'format': fmt, 'filehash': False, 'nested': False, 'eager': True})
    if tier == 'thorough':
        for fmt in ('csv', 'json'):
            out.append({'shape': [40, 0, 25], 'format': fmt, 'filehash': False, 'nested': True})
    return out


def run(run):
    scs = scenarios(run.tier)
    k = run.seed % len(scs)
    scs = scs[k:] + scs[:k]
    for res in run.map(check_scenario, scs, chunksize=2, limit=600):
        run.absorb(res)
    run.rule = ('for each dump (1..3 resources x {0,1,3} rows x csv/json x add_filehash_to_path x nested paths): every '
                'distinct content of the output directory at any interception point (before/after each mkdir and each '
                'step of every copy: create-empty, chunk boundaries at bytes 1, n/2, n-1, n, chmod); distinct by '
                '(scenario, directory content)')
    run.explanation = ('invariant per crash state: datapackage.json absent, or unparseable, or every listed path exists '
                       'with the recorded byte size and md5')
    run.assumptions.append('process-kill semantics; shutil.copy is decomposed by the recorder into create/chunks/chmod')


def replay(w):
    sc = {k: w[k] for k in ('shape', 'format', 'filehash', 'nested', 'counters', 'eager', 'second_run', 'redump', 'cwd_copy', 'relative_chdir', 'dotted') if k in w}
    return check_scenario(sc)['viol']
