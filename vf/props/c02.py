"""C02 - emitted rows always agree with the emitted descriptor (engine E1, invariant on every lazy path result)."""
import copy
import decimal
import datetime

from .. import core, e1
from ..core import S, cj, h

LEVEL = 'model_checking'
D = decimal.Decimal


def typed_rows():
    t1 = [
        {'i': 1, 'm': 1, 'n': 1.5, 'd': D('2.50'), 's': 'x', 'b': True, 'arr': [1, 'a'], 'obj': {'k': 1},
         'dt': datetime.date(2020, 1, 2), 'dtm': datetime.datetime(2020, 1, 2, 3, 4, 5), 'mix': 1, 'nul': None,
         'yr': '2001', 'tm': '10:20:30', 'dur': 'P1DT2H', 'gp': '1.5,2.5'},
        {'i': 2, 'm': 2, 'n': -0.25, 'd': D('-1'), 's': '', 'b': False, 'arr': [], 'obj': {},
         'dt': datetime.date(1999, 12, 31), 'dtm': datetime.datetime(1999, 12, 31, 23, 59, 59), 'mix': 'two',
         'nul': None, 'yr': '1999', 'tm': '00:00:00', 'dur': 'PT0S', 'gp': '-1,0'},
        {'i': None, 'm': 3, 'n': None, 'd': None, 's': None, 'b': None, 'arr': None, 'obj': None, 'dt': None, 'dtm': None,
         'mix': None, 'nul': None, 'yr': None, 'tm': None, 'dur': None, 'gp': None},
        {'i': 1, 'm': 4, 'n': 3.0, 'd': D('1E+2'), 's': 'é😀', 'b': True, 'arr': [[1]], 'obj': {'a': {'b': None}},
         'dt': datetime.date(1, 1, 1), 'dtm': datetime.datetime(2020, 2, 29, 0, 0, 0), 'mix': 2.5, 'nul': None,
         'yr': '0001', 'tm': '23:59:59', 'dur': 'P1Y', 'gp': '0,0'},
    ]
    t2 = [
        {'i': 1, 'm': 1.5, 'n2': 2.5, 'k': 3, 's2': 'p'},
        {'i': 1, 'm': 2.5, 'n2': None, 'k': 4, 's2': 'q'},
        {'i': 3, 'm': 0.5, 'n2': 1.0, 'k': None, 's2': None},
        {'i': 2, 'm': 2.0, 'n2': 4, 'k': 6, 's2': 'r'},
    ]
    return t1, t2


_INIT = None


def initial():
    """The typed input, with the types the library itself infers for python values."""
    global _INIT
    if _INIT is None:
        t1, t2 = typed_rows()
        _INIT = core.materialise(copy.deepcopy(t1), copy.deepcopy(t2))
    return _INIT


_INIT2 = None


def initial_renamed():
    """The same typed input under the names a longer pipeline could have left behind (res_3, res_4: both of the default
    names the next appended source would try first are taken)."""
    global _INIT2
    if _INIT2 is None:
        st = copy.deepcopy(initial())
        for r, n in zip(st.desc['resources'], ('res_3', 'res_4')):
            r['name'] = n
            r['path'] = n + '.csv'
        _INIT2 = core.State(st.desc, st.rows)
    return _INIT2


_INIT3 = None


def initial_missing():
    """The same typed input where the second resource declares its own missing-value tokens and its rows still carry them
    (conforming: 'NA' in an integer column of that resource is a null)."""
    global _INIT3
    if _INIT3 is None:
        st = copy.deepcopy(initial())
        st.desc['resources'][1]['schema']['missingValues'] = ['', 'NA']
        st.rows[1][0]['k'] = 'NA'
        st.rows[1][3]['n2'] = 'NA'
        st.rows[1][1]['i'] = 'NA'           # a column both resources have
        _INIT3 = core.State(st.desc, st.rows)
    return _INIT3


INITS = {'std': initial, 'renamed': initial_renamed, 'missing': initial_missing}
# steps that carry rows of the second resource into another (or the same) resource
SIGMA_MISSING = ['concat_k', 'concat_i_s', 'concat_mapped', 'concat_first_two', 'validate', 'sort_rows', 'delete_resource_first', 'dump_to_path',
                 'deduplicate', 'update_package']
# steps that do not address a resource by name (usable on the renamed input)
SIGMA_NAMELESS = ['iterable', 'acf_const', 'add_field_int', 'validate', 'sort_rows', 'update_package',
                  'select_fields', 'dump_to_path', 'deduplicate']

AGGS = ['sum', 'avg', 'median', 'max', 'min', 'first', 'last', 'count', 'any', 'set', 'array', 'counters']


def join_fields(src):
    return {'%s_%s' % (src, a): {'name': src, 'aggregate': a} for a in AGGS}


@core.builder('c02_set_type_transform')
def _b_stt(step, env):
    # a pattern that matches a field of res_1 only (n) and a field of res_2 only (n2), with a transform, on all resources
    return core.dataflows.set_type('(n|n2)', type='number', resources=None,
                                   transform=lambda v: v)


@core.builder('c02_load_csv_mixed')
def _b_load_csv_mixed(step, env):
    """A delimited file whose 'code' column is mostly digits but not only (bin labels, part numbers): text, not integers."""
    import os
    p = os.path.join(env.scratch, 'mixed-%d.csv' % env.pos)
    with open(p, 'w') as f:
        f.write('code,qty,when\n')
        for i in range(101, 111):
            f.write('%d,%d,2020-01-%02d\n' % (i, i % 7, i - 100))
        f.write('11A,3,2020-01-11\nB12,4,n/a\n')
    return core.dataflows.load(p, name='mixed%d' % env.pos)


@core.builder('c02_gen_late')
def _b_gen_late(step, env):
    def gen():
        # 'late' is null throughout the 100-row inference sample and numeric afterwards, 'odd' holds values of Python types
        # the inference has no name for: the declared types must admit what the rows carry
        for i in range(130):
            yield {'n': i, 'late': None if i < 120 else i, 'odd': datetime.timedelta(seconds=i) if i % 2 else None}
    return gen()


@core.builder('c02_iter')
def _b_iter(step, env):
    return [{'i': 7, 'when': datetime.datetime(2021, 5, 6, 7, 8, 9), 'tags': ['a']}, {'i': None, 'when': None, 'tags': []}]


SYMS = {
    'acf_sum': S('add_computed_field', [{'target': 'c_sum', 'operation': 'sum', 'source': ['i', 'n']}], resources='res_1'),
    # one step over both resources, whose operands have different types (integer in the first, number in the second)
    'acf_sum_all': S('add_computed_field', [{'target': 'c_all', 'operation': 'sum', 'source': ['i', 'm']}], resources=None),
    'acf_max_all': S('add_computed_field', [{'target': 'c_allmax', 'operation': 'max', 'source': ['m', 'i']}], resources=None),
    'acf_sum_int': S('add_computed_field', [{'target': 'c_sumi', 'operation': 'sum', 'source': ['i', 'm']}], resources='res_1'),
    'acf_avg': S('add_computed_field', [{'target': 'c_avg', 'operation': 'avg', 'source': ['m', 'm']}], resources='res_1'),
    'acf_max': S('add_computed_field', [{'target': 'c_max', 'operation': 'max', 'source': ['m', 'n']}], resources='res_1'),
    'acf_min': S('add_computed_field', [{'target': 'c_min', 'operation': 'min', 'source': ['m', 'd']}], resources='res_1'),
    'acf_mul': S('add_computed_field', [{'target': 'c_mul', 'operation': 'multiply', 'source': ['m', 'm']}], resources='res_1'),
    'acf_const': S('add_computed_field', [{'target': 'c_const', 'operation': 'constant', 'with': 'K'}]),
    'acf_join': S('add_computed_field', [{'target': 'c_join', 'operation': 'join', 'source': ['s', 'm'], 'with': '-'}], resources='res_1'),
    'acf_format': S('add_computed_field', [{'target': 'c_fmt', 'operation': 'format', 'with': '{i}:{m}'}]),
    'add_field_int': S('add_field', 'z', 'integer', 7),
    'add_field_date': S('add_field', 'zd', 'date', {'$val': {'$date': '2020-05-05'}}),
    'add_field_nodefault': S('add_field', 'zn', 'string'),
    'delete_fields': S('delete_fields', ['s', 'arr'], resources='res_1'),
    'select_fields': S('select_fields', ['m', 'i']),
    'rename_fields': S('rename_fields', {'i': 'i2', 'm': 'm2'}),
    'set_type_number': S('set_type', 'i', type='number', resources=None),
    'set_type_year': S('set_type', 'yr', type='year', resources='res_1'),
    'set_type_time': S('set_type', 'tm', type='time', resources='res_1'),
    'set_type_duration': S('set_type', 'dur', type='duration', resources='res_1'),
    'set_type_geopoint': S('set_type', 'gp', type='geopoint', resources='res_1'),
    'set_type_any': S('set_type', 'm', type='any', resources=None),
    'set_type_transform_multi': {'op': 'c02_set_type_transform'},
    'rename_swap': S('rename_fields', {'arr': 'obj', 'obj': 'arr'}, resources='res_1'),
    'rename_chain': S('rename_fields', {'b': 'dt', 'dt': 'spare'}, resources='res_1'),
    'validate': S('validate'),
    'unpivot_num': S('unpivot', [{'name': 'm', 'keys': {'what': 'm'}}, {'name': 'n', 'keys': {'what': 'n'}}],
                     [{'name': 'what', 'type': 'string'}], {'name': 'val', 'type': 'number'}, resources='res_1'),
    'unpivot_regex': S('unpivot', [{'name': '(s|zn)', 'keys': {'what': r'\1'}}],
                       [{'name': 'what', 'type': 'string'}], {'name': 'txt', 'type': 'string'}, resources='res_1'),
    'concat_same_name': S('concatenate', {'i': [], 'm': []}, {'name': 'cc'}),
    # two of (by then) three resources, followed by another one: descriptor and stream positions must stay paired
    'concat_first_two': {'op': 'flow', 'positions': [70, 71],
                         'steps': [S('set_type', 'm', type='number', resources=None),
                                   S('concatenate', {'i': [], 'm': [], 'txt': ['s', 's2']}, {'name': 'c12'}, resources=['res_1', 'res_2'])]},
    'concat_k': S('concatenate', {'i': [], 'k': [], 'n2': []}, {'name': 'ck'}, resources='res_2'),
    'concat_mapped': S('concatenate', {'i': [], 'num': ['n2', 'k']}, {'name': 'cm'}, resources='res_2'),
    'join_int': S('join', 'res_1', ['i'], 'res_2', ['i'], join_fields('m'), source_delete=False),
    'join_num': S('join', 'res_1', ['i'], 'res_2', ['i'], join_fields('n'), source_delete=True),
    'join_str': S('join', 'res_1', ['i'], 'res_2', ['i'],
                  {'s_%s' % a: {'name': 's', 'aggregate': a} for a in AGGS if a not in ('avg', 'median')}, mode='inner'),
    'join_full': S('join', 'res_1', ['i'], 'res_2', ['i'], {'m_sum': {'name': 'm', 'aggregate': 'sum'},
                                                               's': {'aggregate': 'first'}}, mode='full-outer'),
    'join_typed': S('join', 'res_1', ['i'], 'res_2', ['i'], {'dt': {'aggregate': 'first'}, 'dtm': {'aggregate': 'max'},
                                                               'b': {'aggregate': 'last'}, 'arr': {'aggregate': 'array'},
                                                               'obj': {'aggregate': 'any'}, 'd': {'aggregate': 'sum'},
                                                               'mixes': {'name': 'mix', 'aggregate': 'set'}}, source_delete=False),
    # key fields named differently on the two sides, and the source's key name (s) is not a field of the target
    'join_full_diffkey': S('join', 'res_1', ['s'], 'res_2', ['s2'], {'b_last': {'name': 'b', 'aggregate': 'last'}}, mode='full-outer'),
    'acf_chain': S('add_computed_field', [{'target': 'c1', 'operation': 'sum', 'source': ['m', 'm']},
                                          {'target': 'c2', 'operation': 'multiply', 'source': ['c1', 'm']},
                                          {'target': 'c3', 'operation': 'format', 'with': '{c1}/{c2}'}], resources='res_1'),
    'acf_int_first': S('add_computed_field', [{'target': 'c_mix', 'operation': 'sum', 'source': ['m', 'n']},
                                              {'target': 'c_mixmax', 'operation': 'max', 'source': ['m', 'd']}], resources='res_1'),
    'join_self': S('join_with_self', 'res_2', ['i'], {'i': None, 'm_avg': {'name': 'm', 'aggregate': 'avg'},
                                                        'k_max': {'name': 'k', 'aggregate': 'max'},
                                                        'cnt': {'aggregate': 'count'}}),
    'join_self_int': S('join_with_self', 'res_1', ['b'], {'b': None, 'm_avg': {'name': 'm', 'aggregate': 'avg'},
                                                            'm_med': {'name': 'm', 'aggregate': 'median'},
                                                            'm_min': {'name': 'm', 'aggregate': 'min'}}),
    'duplicate': S('duplicate', 'res_1'),
    'duplicate_end': S('duplicate', 'res_2', 'dup2', 'dup2.csv', duplicate_to_end=True),
    'duplicate_bs1': S('duplicate', 'res_1', 'res_1_b1', 'b1.csv', batch_size=1),
    'set_primary_key_i': S('set_primary_key', ['i'], resources=None),
    'concat_i_s': {'op': 'flow', 'positions': [72, 73],
                   'steps': [S('set_type', 'm', type='number', resources=None),
                             S('concatenate', {'i': [], 'm': []}, {'name': 'cis'})]},
    'delete_resource': S('delete_resource', 'res_2'),
    'delete_resource_first': S('delete_resource', 'res_1'),     # the resources behind it must still get their own rows
    'sort_rows': S('sort_rows', '{m}', reverse=True),
    'filter_rows': S('filter_rows', not_equals=[{'m': 2}]),
    'set_primary_key': S('set_primary_key', ['m']),
    'deduplicate': S('deduplicate'),
    'find_replace': S('find_replace', [{'name': 's', 'patterns': [{'find': '^x', 'replace': 'y'}]}], resources='res_1'),
    'update_resource': {'op': 'update_resource', 'a': ['res_2'], 'k': {'title': 'T', 'path': 'data/t.csv'}},
    'update_schema': {'op': 'update_schema', 'a': [None], 'k': {'missingValues': ['', 'NA']}},
    'update_package': S('update_package', name='pkg', title='T'),
    'iterable': {'op': 'c02_iter'},
    'gen150': {'op': 'gen150'},
    'gen_late': {'op': 'c02_gen_late'},
    'load_csv_mixed': {'op': 'c02_load_csv_mixed'},
    'sources': {'op': 'sources2'},
    'load_tuple': {'op': 'load_tuple'},
    'dump_to_path': S('dump_to_path', {'$path': 'dump'}),
    'dump_to_path_json': S('dump_to_path', {'$path': 'dumpj'}, format='json'),
    'printer': S('printer', header_print={'$fn': 'e1_printer_sink', 'env': True},
                 table_print={'$fn': 'e1_printer_sink', 'env': True}),
}
SIGMA = list(SYMS)


def run_path(path, via, init='std'):
    steps = [{'op': 'from_state', 'state': INITS[init]()}] + [SYMS[s] for s in path]
    res, tree, env = e1.execute(steps, list(range(len(path) + 1)), via)
    return res


NUMERIC_OVER_ALL = {'acf_sum_all': ['i', 'm'], 'acf_max_all': ['m', 'i']}


def ill_typed(path, init):
    """A numeric aggregate spread over every resource is only a well-typed request where the columns it names are numeric in
    every resource that has them (an earlier step may have left a text column of that name, e.g. concatenate's default for a
    target field no source provides)."""
    for k, sym in enumerate(path):
        if sym in NUMERIC_OVER_ALL:
            before = run_path(path[:k], 'datastream', init)
            if before[0] == 'exc':
                return False
            for r in before[1].desc['resources']:
                for f in r['schema']['fields']:
                    if f['name'] in NUMERIC_OVER_ALL[sym] and f['type'] not in ('integer', 'number'):
                        return True
    return False


def check_path(path, init='std'):
    """Returns (violations[(oracle, what)], outcome, expandable)."""
    if any(sym in NUMERIC_OVER_ALL for sym in path) and ill_typed(path, init):
        return [], 'rejected', False
    res = run_path(path, 'datastream', init)
    if res[0] == 'exc':
        if len(path) == 1 and init == 'std':
            # every symbol of the alphabet is well-typed on the conforming input by construction (vacuity audit): a single
            # built-in step over such data must not fail
            e0 = res[1]
            return [('rejected-well-typed', 'Flow(%s) over schema-conforming data fails: %s: %s' %
                     (path[0], core.exc_sig(e0), str(e0)[:160].replace('\n', ' ')))], 'rejected', False
        return [], 'rejected', False
    label = 'Flow(%s%s)' % ({'renamed': '<resources named res_3, res_4>, ', 'missing': '<res_2 declaring missingValues ["", "NA"] and carrying NA>, '}.get(init, ''), ', '.join(path))
    viol = e1.invariant(res[1], label)
    rr = run_path(path, 'results', init)
    if rr[0] == 'exc':
        e = rr[1]
        if not viol:
            viol.append(('results-raises', '%s.results() raises %s: %s' % (label, core.exc_sig(e),
                                                                            str(e)[:160].replace('\n', ' '))))
    else:
        st = rr[1]
        st.tags = None
        v2 = e1.invariant(st, label + '.results()')
        if not viol:
            viol.extend(v2)
        if not viol and [len(r) for r in st.rows] != [len(r) for r in res[1].rows]:
            viol.append(('results-rows', '%s.results() returns %r rows per resource, datastream() %r' %
                         (label, [len(r) for r in st.rows], [len(r) for r in res[1].rows])))
    return viol, 'ok' if not viol else 'violated', not viol


def shrink(path, oracle, init='std'):
    cur = list(path)
    changed = True
    while changed and len(cur) > 1:
        changed = False
        for i in range(len(cur)):
            cand = cur[:i] + cur[i + 1:]
            if any(o == oracle for o, _ in check_path(cand, init)[0]):
                cur, changed = cand, True
                break
    return cur


def explore(task):
    prefix, depth = task['prefix'], task['depth']
    init = task.get('init', 'std')
    sigma = {'std': SIGMA, 'renamed': SIGMA_NAMELESS, 'missing': SIGMA_MISSING}[init]
    tagp = '' if init == 'std' else init + ':'
    out = {'n': 0, 'keys': [], 'outcomes': {}, 'viol': [], 'states': 0, 'transitions': 0, 'traces': 0}
    for i in range(1, len(prefix)):
        v, o, exp = check_path(prefix[:i], init)
        if not exp:
            return out

    def rec(path):
        viol, outcome, expandable = check_path(path, init)
        out['n'] += 1
        out['traces'] += 1
        out['transitions'] += len(path)
        out['outcomes'][outcome] = out['outcomes'].get(outcome, 0) + 1
        if outcome != 'rejected':
            out['keys'].append(h([init] + path))
            out['states'] += 1
        seen = set()
        for oracle, what in viol:
            mp = shrink(path, oracle, init)
            w2 = [w for o, w in check_path(mp, init)[0] if o == oracle]
            sig = '%s/%s%s' % (oracle, tagp, e1.shape(mp))
            if sig in seen:
                continue
            seen.add(sig)
            out['viol'].append((sig, w2[0] if w2 else what, {'path': mp, 'oracle': oracle, 'init': init}))
        if expandable and len(path) < depth:
            for s in sigma:
                rec(path + [s])
    rec(list(prefix))
    out['sample'] = {'prefix': prefix, 'depth': depth}
    return out


def run(run):
    depth = 2 if run.tier == 'quick' else 3
    if run.tier == 'quick':
        tasks = [{'prefix': [s], 'depth': 2} for s in SIGMA]
    else:
        tasks = [{'prefix': [s], 'depth': 1} for s in SIGMA] + \
                [{'prefix': [s1, s2], 'depth': 3} for s1 in SIGMA for s2 in SIGMA]
    tasks += [{'prefix': [s], 'depth': depth, 'init': 'renamed'} for s in SIGMA_NAMELESS]
    tasks += [{'prefix': [s], 'depth': depth, 'init': 'missing'} for s in SIGMA_MISSING]
    k = run.seed % len(tasks)
    tasks = tasks[k:] + tasks[:k]
    for res in run.map(explore, tasks, chunksize=1, limit=1800):
        run.absorb(res)
    run.rule = ('every sequence of built-in step instances (alphabet of %d) up to length %d applied lazily to a typed '
                'two-resource package whose types the library inferred itself; non-trivial = accepted by the '
                'framework (not rejected at package/row phase); distinct by path' % (len(SIGMA), depth))
    run.explanation = ('states = accepted path results on which the invariant was evaluated (both datastream() and '
                       'results()); transitions = steps executed; traces = complete lazy executions of real code')
    run.extra['alphabet'] = SIGMA
    run.extra['depth'] = depth


def replay(w):
    init = w.get('init', 'std')
    v, _, _ = check_path(w['path'], init)
    return [('%s/%s%s' % (o, '' if init == 'std' else init + ':', e1.shape(w['path'])), what, w) for o, what in v]
