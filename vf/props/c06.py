"""C06 - row-wise pipelines stream with bounded look-ahead (E1 + pull/deliver trace monitor)."""
import copy
import itertools

from .. import core, e1
from ..core import S, Env, cj, h

LEVEL = 'exploration'
SAMPLE = 100          # iterable_loader's inference sample (read off the code)
FILE_SAMPLE = 1000    # the tabulator sample load() asks for on file sources (read off the code)


class Monitor:
    def __init__(self, nsrc):
        self.pulled = [0] * nsrc
        self.started = [False] * nsrc
        self.L = [0] * nsrc           # max look-ahead per source
        self.pre = [0] * nsrc         # max rows pulled from a source before its first delivery
        self.delivered = 0
        self.last = [-1] * nsrc

    def pull(self, k):
        self.pulled[k] += 1

    def finish(self):
        """After the run: rows pulled beyond the last delivered one were read ahead of... nothing."""
        for k in range(len(self.pulled)):
            if self.started[k]:
                la = self.pulled[k] - (self.last[k] + 1)
                if la > self.L[k]:
                    self.L[k] = la

    def deliver(self, k, i):
        self.last[k] = max(self.last[k], i)
        self.delivered += 1
        self.started[k] = True
        la = self.pulled[k] - (i + 1)
        if la > self.L[k]:
            self.L[k] = la
        for j in range(len(self.pulled)):
            if not self.started[j] and self.pulled[j] > self.pre[j]:
                self.pre[j] = self.pulled[j]


def make_row(k, i):
    # 'nn' is null in every row, 'late' is null for the first 400 rows: inference must not chase a value
    return {'_src': k, '_i': i, 's': str(i % 7), 'd': 'x', 'r': i, 'u1': 'p%d' % (i % 3), 'u2': 'q', 'nn': None,
            'late': None if i < 400 else 'v'}


FIELDS = [('_src', 'integer'), ('_i', 'integer'), ('s', 'string'), ('d', 'string'), ('r', 'integer'),
          ('u1', 'string'), ('u2', 'string'), ('nn', 'string'), ('late', 'string')]


def gen_source(mon, k, n):
    for i in range(n):
        mon.pull(k)
        yield make_row(k, i)


def counting_parser(mon, n, blanks=False):
    """A tabulator parser (plugged in through load's documented pass-through of format= / custom_parsers=) whose rows come
    from the monitored generator: a file source whose reading pattern the harness can see."""
    from tabulator.parser import Parser
    names = [f[0] for f in FIELDS]

    class CountingParser(Parser):
        options = []

        def __init__(self, loader, force_parse=False):
            self._rows = None

        @property
        def closed(self):
            return self._rows is None

        def open(self, source, encoding=None):
            self.reset()

        def close(self):
            self._rows = None

        def reset(self):
            self._rows = self._iter()

        @property
        def encoding(self):
            return 'utf-8'

        @property
        def extended_rows(self):
            return self._rows

        def _iter(self):
            yield 1, None, list(names)
            for i in range(n):
                mon.pull(0)
                r = make_row(0, i)
                if blanks and 100 <= i < 100 + n // 2:
                    # a long stretch of blank lines in the middle of the file (its length grows with the file)
                    yield i + 2, None, ['' for c in names]
                    continue
                yield i + 2, None, ['' if r[c] is None else str(r[c]) for c in names]
    return CountingParser


FILE_OPTS = {
    'file-default': {},
    'file-full': {'infer_strategy': 'full'},
    'file-strings': {'infer_strategy': 'strings'},
    'file-pytypes': {'infer_strategy': 'pytypes', 'cast_strategy': 'nothing'},
    'file-nocast': {'cast_strategy': 'nothing'},
    'file-castcheck': {'cast_strategy': 'schema'},
    'file-limit': {'limit_rows': 1200},
    'file-blanks': {},
    'file-blanks-strings': {'infer_strategy': 'strings'},
    'file-override': {'override_fields': {'s': {'type': 'string'}}, 'extract_missing_values': True},
}


class LazySized:
    """A lazily produced source that also knows its length (a query result, a file-backed sequence)."""

    def __init__(self, mon, k, n):
        self.mon, self.k, self.n = mon, k, n

    def __len__(self):
        return self.n

    def __iter__(self):
        return gen_source(self.mon, self.k, self.n)


@core.builder('c06_rowfn')
def _b_rowfn(step, env):
    def f(row):
        row['r'] = row.get('r')
    return f


@core.builder('c06_rowsfn')
def _b_rowsfn(step, env):
    def f(rows):
        for r in rows:
            yield r
    return f


@core.builder('c06_set_type_transform')
def _b_stt(step, env):
    return core.dataflows.set_type('s', type='integer', resources=None, transform=lambda v: v)


@core.builder('c06_filter')
def _b_filter(step, env):
    return core.dataflows.filter_rows(condition=lambda row: row['_i'] % 2 == 0)


@core.builder('c06_validate_fn')
def _b_vfn(step, env):
    return core.dataflows.validate('_i', lambda v: v % 5 != 0, on_error=core.dataflows.base.schema_validator.drop)


core.FUNCS.setdefault('drop', core.dataflows.base.schema_validator.drop)


@core.fn('c06_sink')
def _sink(env):
    def f(x, kwargs=None):
        pass
    return f


SYMS = {
    'add_field': S('add_field', 'z1', 'integer', 1),
    'add_computed_field': S('add_computed_field', [{'target': 'cf', 'operation': 'format', 'with': '{_i}-{_src}'}]),
    'delete_fields': S('delete_fields', ['d']),
    'select_fields': S('select_fields', ['_src', '_i', 's', 'r', 'u.']),
    'rename_fields': S('rename_fields', {'r': 'r2'}),
    'find_replace': S('find_replace', [{'name': 'u2', 'patterns': [{'find': 'q', 'replace': 'Q'}]}]),
    'set_type': S('set_type', 's', type='integer', resources=None),
    'validate': S('validate'),
    'set_type_transform': {'op': 'c06_set_type_transform'},
    'filter_rows': {'op': 'c06_filter'},
    'unpivot': S('unpivot', [{'name': 'u([12])', 'keys': {'un': r'\1'}}], [{'name': 'un', 'type': 'string'}],
                 {'name': 'uv', 'type': 'string'}),
    # value columns stacked into one column without any key column
    'unpivot_nokeys': S('unpivot', [{'name': 'u1', 'keys': {}}, {'name': 'u2', 'keys': {}}], [], {'name': 'uv', 'type': 'string'}),
    'concatenate': S('concatenate', {'_src': [], '_i': [], 's': []}, {'name': 'cc'}),
    'printer': S('printer', num_rows=1, header_print={'$fn': 'c06_sink', 'env': True},
                 table_print={'$fn': 'c06_sink', 'env': True}),
    'dump_to_path': S('dump_to_path', {'$path': 'dump'}),
    'dump_to_path_json': S('dump_to_path', {'$path': 'dumpj'}, format='json'),
    'dump_to_zip': S('dump_to_zip', {'$path': 'o.zip'}),
    'dump_to_path_filehash': S('dump_to_path', {'$path': 'dumph'}, add_filehash_to_path=True),
    'dump_to_zip_json_opts': S('dump_to_zip', {'$path': 'oj.zip'}, format='json', add_filehash_to_path=True, pretty_descriptor=False,
                               counters={'resource-hash': None}),
    'dump_to_path_nocounters': S('dump_to_path', {'$path': 'dumpn'}, counters={'resource-bytes': None, 'datapackage-bytes': None,
                                                                                'resource-hash': None, 'datapackage-hash': None}),
    'set_type_on_error': S('set_type', 'u2', type='integer', resources=None, on_error={'$fn': 'drop'}),
    'validate_fn': {'op': 'c06_validate_fn'},
    'printer_last': S('printer', num_rows=2, last_rows=3, fields=['_i'], header_print={'$fn': 'c06_sink', 'env': True},
                      table_print={'$fn': 'c06_sink', 'env': True}),
    'stream': S('stream', {'$path': 'st/stream.ndjson'}),
    'checkpoint': {'op': 'checkpoint_first'},
    'update_resource': {'op': 'update_resource', 'a': [None], 'k': {'title': 'T'}},
    'set_primary_key': S('set_primary_key', ['_i']),
    'user_row': {'op': 'c06_rowfn'},
    'user_rows': {'op': 'c06_rowsfn'},
}
CONTROL = {'sort_rows': S('sort_rows', '{_i}')}      # buffering step: the monitor's positive control
SIGMA = list(SYMS)
FILE_SOURCES = list(FILE_OPTS)
SOURCES = ['gen1', 'gen-sparse', 'gen-ragged', 'gen2', 'tuple1', 'tuple-limit', 'genlist', 'gen1-take10', 'tuple1-take10', 'gen1-badrow', 'sized1', 'tuple-select',
           'tuple-noschema']


def run_one(srckind, path, n):
    """Returns ('ok', L list, pre list, delivered) or ('exc', e)."""
    nsrc = 2 if srckind in ('gen2', 'tuple-select') else 1
    mon = Monitor(nsrc)
    take10 = srckind.endswith('-take10')
    badrow = srckind.endswith('-badrow')
    srckind = srckind.replace('-take10', '').replace('-badrow', '')
    with core.scratch_dir() as d:
        env = Env(d)
        env.expected_markers = set()
        links = []
        if srckind in ('gen1', 'gen2'):
            for k in range(nsrc):
                links.append(gen_source(mon, k, n))
        elif srckind == 'gen-sparse':
            # a wide, sparse stream: a key nobody has seen before keeps turning up (one column per period)
            links.append((dict(r, **{'m_%03d' % (r['_i'] // 40): 1}) for r in gen_source(mon, 0, n)))
        elif srckind == 'gen-ragged':
            # optional keys: half of the rows lack 'u2', the first row lacks 'nn'
            def ragged():
                for r in gen_source(mon, 0, n):
                    if r['_i'] % 2:
                        del r['u2']
                    if r['_i'] == 0:
                        del r['nn']
                    yield r
            links.append(ragged())
        elif srckind == 'tuple-noschema':
            # a hand-written descriptor whose resource has no schema at all
            links.append(core.dataflows.load(({'name': 'p', 'resources': [{'name': 't', 'path': 't.csv'}]}, iter([gen_source(mon, 0, n)]))))
        elif srckind == 'tuple-select':
            # a (descriptor, iterators) pair with two lazy resources of which only the second is requested
            st = core.mkstate([('skipped', FIELDS, []), ('t', FIELDS, [])])
            links.append(core.dataflows.load((copy.deepcopy(st.desc), iter([gen_source(mon, 0, n), gen_source(mon, 1, n)])),
                                             resources='t'))
        elif srckind == 'sized1':
            links.append(LazySized(mon, 0, n))
        elif srckind in FILE_OPTS:
            fpath = d + '/numbers.cnt'
            open(fpath, 'w').close()
            links.append(core.dataflows.load(fpath, name='t', format='cnt', custom_parsers={'cnt': counting_parser(mon, n, blanks='blanks' in srckind)},
                                             **FILE_OPTS[srckind]))
        elif srckind == 'genlist':
            # an iterable of lists (columns col0, col1, ...): renamed so that the steps of the alphabet still apply
            names = [f[0] for f in FIELDS]
            links.append(([r[c] for c in names] for r in gen_source(mon, 0, n)))
            links.append(core.dataflows.rename_fields({'col%d' % i: c for i, c in enumerate(names)}))
        else:
            st = core.mkstate([('t', FIELDS, [])])
            kw = {'limit_rows': 60} if srckind == 'tuple-limit' else {}
            links.append(core.dataflows.load((copy.deepcopy(st.desc), [gen_source(mon, 0, n)]), **kw))
        try:
            for p, s in enumerate(path, start=1):
                env.pos = p
                sym = SYMS.get(s) or CONTROL[s]
                links.append(e1.build_link(sym, env))

            def terminal(rows):
                nblank = 0
                for r in rows:
                    if r['_i'] in (None, ''):
                        # a blank line of the file: they arrive in order, the k-th one is line 100+k of the source
                        mon.deliver(0, 100 + nblank)
                        nblank += 1
                        yield r
                        continue
                    mon.deliver(int(r['_src']), int(r['_i']))
                    yield r
                    if take10 and mon.delivered >= 10:
                        return              # the consumer stops reading this resource here
            if badrow:
                # one cell in mid-stream cannot be cast: the run must fail THERE, not after reading the rest
                bad_at = n // 2

                def spoil(rows):
                    for r in rows:
                        if r['_i'] == bad_at:
                            r['r'] = 'not-a-number'
                        yield r
                links.append(spoil)
                links.append(core.dataflows.set_type('r', type='integer', resources=None))
            links.append(terminal)
            try:
                core.Flow(*links).process()
            except Exception:
                if not badrow:
                    raise
            mon.finish()
        except core.CaseTimeout:
            raise
        except Exception as e:
            return ('exc', e)
    return ('ok', list(mon.L), list(mon.pre), mon.delivered)


def sizes(tier):
    return [150, 300, 1200] if tier == 'quick' else [150, 300, 1200, 10000]


def check_seq(srckind, path, ns):
    """Returns (violations, outcome, profile)."""
    res = []
    for n in ns:
        r = run_one(srckind, path, n)
        if r[0] == 'exc':
            return [], 'rejected', None
        res.append(r)
    viol = []
    label = 'Flow(%s, %s)' % (srckind, ', '.join(path))
    Ls = [tuple(r[1]) for r in res]
    pres = [tuple(r[2]) for r in res]
    bound = FILE_SAMPLE if srckind in FILE_OPTS else SAMPLE
    if any(max(l) > bound for l in Ls) or any(max(p) > bound for p in pres):
        viol.append(('lookahead-bound', '%s: rows read ahead of the row being delivered: %r for sizes %r (bound %d)'
                     % (label, Ls, ns, bound)))
    elif len(set(Ls)) != 1:
        viol.append(('lookahead-grows', '%s: look-ahead depends on the stream length: %r for sizes %r' % (label, Ls, ns)))
    if any(r[3] == 0 for r in res):
        return viol, 'nothing-delivered', (Ls[0], pres[0])
    return viol, 'ok' if not viol else 'violated', (Ls[0], pres[0])


def shrink(srckind, path, oracle, ns):
    cur = list(path)
    changed = True
    while changed and len(cur) > 1:
        changed = False
        for i in range(len(cur)):
            cand = cur[:i] + cur[i + 1:]
            if any(o == oracle for o, _ in check_seq(srckind, cand, ns)[0]):
                cur, changed = cand, True
                break
    return cur


def explore(task):
    srckind, prefix, depth, ns = task['src'], task['prefix'], task['depth'], task['sizes']
    out = {'n': 0, 'keys': [], 'outcomes': {}, 'viol': [], 'profiles': {}}

    def rec(path):
        if task.get('skip_own') and len(path) == len(prefix):
            # the prefix itself belongs to another task: only decide whether to extend it
            viol, outcome, prof = check_seq(srckind, path, ns[:1])
            if outcome != 'rejected' and not viol:
                for s in SIGMA:
                    rec(path + [s])
            return
        viol, outcome, prof = check_seq(srckind, path, ns)
        out['n'] += len(ns)
        out['outcomes'][outcome] = out['outcomes'].get(outcome, 0) + 1
        if outcome in ('ok', 'violated'):
            out['keys'].append(h([srckind, path]))
            out['profiles'][cj(prof)] = [srckind] + path
        for oracle, what in viol:
            mp = shrink(srckind, path, oracle, ns)
            w2 = [w for o, w in check_seq(srckind, mp, ns)[0] if o == oracle]
            out['viol'].append(('%s/%s' % (oracle, '+'.join(mp)), w2[0] if w2 else what,
                                {'src': srckind, 'path': mp, 'sizes': ns, 'oracle': oracle}))
        if outcome != 'rejected' and not viol and len(path) < depth:
            for s in SIGMA:
                rec(path + [s])
    rec(list(prefix))
    out['sample'] = {'source': srckind, 'prefix': prefix, 'depth': depth, 'sizes': ns}
    return out


def run(run):
    depth = 2 if run.tier == 'quick' else 3
    ns = sizes(run.tier)
    tasks = [{'src': k, 'prefix': [], 'depth': 0, 'sizes': ns} for k in SOURCES]
    # file sources: sizes beyond the tabulator sample, so that a look-ahead that follows the length shows
    fns = [1500, 3000] if run.tier == 'quick' else [1500, 3000, 12000]
    # (the blank-stretch files are run without further steps: a step that drops the non-blank lines would leave a tail of rows
    # that are read and discarded, which the monitor's end-of-run rule would count as read ahead)
    tasks += [{'src': k, 'prefix': [], 'depth': 1 if (k in ('file-default', 'file-full') or run.tier == 'thorough') and 'blanks' not in k else 0, 'sizes': fns}
              for k in FILE_SOURCES]
    for k in SOURCES:
        if depth == 2:
            d_k = 2 if k in ('gen1', 'tuple1') else 1      # quick: pairs on the two basic sources, singles on the others
        if k.endswith('-take10') or k.endswith('-badrow'):
            tasks += [{'src': k, 'prefix': [s], 'depth': 1, 'sizes': ns} for s in SIGMA]
            continue
        if depth == 2:
            tasks += [{'src': k, 'prefix': [s], 'depth': d_k, 'sizes': ns} for s in SIGMA]
        else:
            # sequences of length <=2 on every size (incl. 10^4); length 3 on the two ends of the small sizes
            tasks += [{'src': k, 'prefix': [s], 'depth': 2, 'sizes': ns} for s in SIGMA]
            tasks += [{'src': k, 'prefix': [s, t, u], 'depth': 3, 'sizes': [150, 1200]} for s in SIGMA for t in SIGMA for u in SIGMA[:0]]
            tasks += [{'src': k, 'prefix': [s, t], 'depth': 3, 'sizes': [150, 1200], 'skip_own': True} for s in SIGMA for t in SIGMA]
    j = run.seed % len(tasks)
    tasks = tasks[j:] + tasks[:j]
    profiles = {}
    for res in run.map(explore, tasks, chunksize=1, limit=3000):
        if res and not res.get('timeout'):
            profiles.update(res.pop('profiles'))
        run.absorb(res)
    # positive control: the monitor must see a buffering step
    ctl = check_seq('gen1', ['sort_rows'], ns)
    run.extra['positive_control_sort_rows'] = ctl[0][0][0] if ctl[0] else 'NOT DETECTED'
    if not ctl[0]:
        run.harness_errors.append({'err': 'monitor did not flag the buffering control step sort_rows'})
    # one long run per distinct look-ahead profile (thorough)
    if run.tier == 'thorough':
        big = []
        for prof, sp in sorted(profiles.items()):
            big.append((sp[0], sp[1:], prof))
        for (src, path, prof), r in zip(big, run.map(_big, [(s, p) for s, p, _ in big], chunksize=1, limit=3000)):
            if r is None or r.get('timeout'):
                continue
            run.count(h(['big', src, path]), True, 'big-ok' if r['ok'] else 'big-violated')
            if not r['ok']:
                run.violation('lookahead-grows/%s' % '+'.join(path), r['what'], {'src': src, 'path': path,
                                                                               'sizes': big_sizes(src)})
    run.extra['distinct_lookahead_profiles'] = sorted(profiles)
    run.rule = ('every sequence of non-buffering steps (alphabet %d) up to length %d x source kind (1 or 2 counting '
                'generators through the iterable loader, a (descriptor, iterators) load) x stream lengths %r; '
                'non-trivial = the sequence is accepted and delivers rows; distinct by (source, sequence)'
                % (len(SIGMA), depth, ns))
    run.explanation = ('per source: look-ahead = rows pulled - (index of the row being delivered + 1), maximised over '
                       'all deliveries; must be <= %d (the inference sample) and equal for every stream length' % SAMPLE)
    run.assumptions.append('file sources are exercised through a counting tabulator parser (format=/custom_parsers=); the csv/xlsx '
                           'parsers themselves and remote/SQL sources are not covered')


def _big(args):
    src, path = args
    v, outcome, prof = check_seq(src, path, big_sizes(src))
    return {'ok': not v, 'what': v[0][1] if v else ''}


def big_sizes(src):
    # both lengths lie beyond the source's sample (a file shorter than tabulator's 1000-row sample is read whole)
    return [1500, 100000] if src in FILE_OPTS else [150, 100000]


def replay(w):
    v, _, _ = check_seq(w['src'], w['path'], w['sizes'])
    return [('%s/%s' % (o, '+'.join(w['path'])), what, w) for o, what in v]
