"""C20 - dump_to_sql leaves the table in the state its mode prescribes (E5 history explorer over an SQLite file)."""
import os
import copy
import json
import shutil
import sqlite3
import itertools
import collections

from .. import core
from ..core import mkstate, cj, h, enc_rows

LEVEL = 'model_checking'

ARR = {'x': [1, 2], 'y': [], 'n': None}
OBJ = {'x': {'a': 1}, 'y': {}, 'n': None}
ARR2 = {'x': [1, 0], 'y': [True, False], 'n': [1.0, 0.0]}      # equal as Python lists, different as JSON


import datetime as _dt
# temporal values nested inside array cells (a join 'array' aggregate over a datetime column produces such cells)
ARR3 = {'x': [_dt.datetime(2020, 1, 2, 3, 4, 5), 'a'], 'y': [_dt.date(2020, 1, 2)], 'n': [{'t': _dt.datetime(2020, 1, 2, 23, 0, 0)}]}


def _iso(o):
    if isinstance(o, dict):
        return {k: _iso(v) for k, v in o.items()}
    if isinstance(o, list):
        return [_iso(v) for v in o]
    if isinstance(o, _dt.date):
        return o.isoformat()
    return o


import decimal
NUMKEY = {'k1': decimal.Decimal('1.5'), 'k2': decimal.Decimal('2.5')}


# configuration 'schema_change': the declared type of column v alternates from dump to dump (same column names)
VPHASE = [{'x': 7, 'y': 10, 'n': None}, {'x': '007', 'y': '010', 'n': None}]


def mkrow(k, v, cols, phase=None):
    r = {'k': NUMKEY[k] if 'numkey' in cols else k, 'v': v if phase is None else VPHASE[phase][v]}
    if 'arr' in cols:
        r['arr'] = copy.deepcopy(ARR[v])
    if 'arr2' in cols:
        r['arr'] = copy.deepcopy(ARR2[v])
    if 'arr3' in cols:
        r['arr'] = copy.deepcopy(ARR3[v])
    if 'obj' in cols:
        r['obj'] = copy.deepcopy(OBJ[v])
    return r


BATCHES = [[], [('k1', 'x')], [('k1', 'y')], [('k1', 'x'), ('k2', 'x')], [('k1', 'x'), ('k1', 'y')],
           [('k2', 'y'), ('k1', 'x')], [('k2', 'n')]]
MODES = ['rewrite', 'append', 'update']


def db_rows(path, cols, table='t'):
    if not os.path.exists(path):
        return None
    c = sqlite3.connect(path)
    try:
        names = [x[1] for x in c.execute('pragma table_info(%s)' % table)]
        if not names:
            return None
        rows = [dict(zip(names, r)) for r in c.execute('select * from %s' % table)]
    finally:
        c.close()
    return rows


def canon(rows):
    return None if rows is None else sorted(cj(r) for r in rows)


def stored(r):
    """How a row is expected to look inside SQLite (array/object as JSON text, null as NULL)."""
    out = dict(r)
    if isinstance(out.get('k'), decimal.Decimal):
        out['k'] = float(out['k'])          # SQLite holds numbers as REAL
    for f in ('arr', 'obj'):
        if f in out and out[f] is not None:
            out[f] = json.dumps(_iso(out[f]))
    return out


def model_apply(table, mode, batch, pk):
    """Reference list model. Returns (new table, flags) or 'rejected'."""
    table = [dict(r) for r in (table or [])]
    rows = [stored(r) for r in batch]
    flags = []
    if mode == 'rewrite':
        table = []
    if mode in ('rewrite', 'append'):
        for r in rows:
            if pk and any(t['k'] == r['k'] for t in table):
                return 'rejected'
            table.append(r)
            flags.append(False)
        return table, flags
    for r in rows:
        hit = [t for t in table if t['k'] == r['k']]
        if hit:
            for t in hit:
                t.update(r)
            flags.append(True)
        else:
            table.append(r)
            flags.append(False)
    return table, flags


def do_dump(dbpath, cfg, mode, batch, phase=None):
    cols = cfg['cols']
    fields = [('k', 'number' if 'numkey' in cols else 'string'), ('v', 'integer' if phase == 0 else 'string')] + \
        ([('arr', 'array')] if ('arr' in cols or 'arr2' in cols or 'arr3' in cols) else []) + ([('obj', 'object')] if 'obj' in cols else [])
    rows = [mkrow(k, v, cols, phase) for k, v in batch]
    st = mkstate([('r', fields, rows)] + ([('r2', fields, copy.deepcopy(rows))] if (cfg.get('two') or cfg.get('unmapped')) else []))
    if cfg['pk']:
        for r in st.desc['resources']:
            r['schema']['primaryKey'] = ['k']
    if cfg.get('pk_other'):
        # the schema's primary key is another column (unique per dumped row); the table spec names the update key
        for r_, rows_ in zip(st.desc['resources'], st.rows):
            r_['schema']['fields'].append({'name': 'u', 'type': 'string', 'format': 'default'})
            r_['schema']['primaryKey'] = ['u']
            for row in rows_:
                row['u'] = '%s/%s/%s' % (row['k'], row['v'], mode)
        for row in rows:
            row['u'] = '%s/%s/%s' % (row['k'], row['v'], mode)
    tbl = {'resource-name': 'r', 'mode': mode}
    if cfg.get('pk_other') and mode == 'update':
        tbl['update_keys'] = ['k']
    if (mode == 'update' or cfg.get('keys_always')) and not cfg['pk']:
        tbl['update_keys'] = ['k']          # only mode 'update' may honour them
    if cfg.get('keys_none'):
        tbl['update_keys'] = None           # spelled out: fall back to the schema's primary key
    tables = {'t': tbl}
    if cfg.get('two'):
        tables['t2'] = dict(tbl, **{'resource-name': 'r2'})
    try:
        out = core.materialise(core.from_state(st),
                               core.dataflows.dump_to_sql(tables, engine='sqlite:///' + dbpath, updated_column='_upd',
                                                          batch_size=cfg['batch_size'], use_bloom_filter=cfg['bloom']))
        if cfg.get('unmapped') and enc_rows(out.rows[1]) != enc_rows(rows):
            # a resource the step does not map to any table simply continues downstream
            return 'exc', AssertionError('the resource r2, which dump_to_sql was not asked to store, continues downstream as %r' % (out.rows[1],)), rows
        return 'ok', out.rows[0], rows
    except core.CaseTimeout:
        raise
    except Exception as e:
        return 'exc', e, rows


NEIGHBOURS = ['t_2020', 'tt', 'at', 't2']


def neighbours_damaged(path):
    import sqlite3
    c = sqlite3.connect(path)
    try:
        for name in NEIGHBOURS:
            try:
                rows = list(c.execute('select k, v from %s' % name))
            except sqlite3.OperationalError:
                return 'the unrelated table %r no longer exists' % name
            if rows != [('n', name)]:
                return 'the unrelated table %r now holds %r' % (name, rows)
    finally:
        c.close()
    return None


def explore(task):
    cfg, depth = task['cfg'], task['depth']
    out = {'n': 0, 'keys': [], 'outcomes': {}, 'viol': [], 'states': 0, 'transitions': 0, 'traces': 0}
    seen_sig = set()

    def V(oracle, what, hist):
        sig = '%s/%s' % (oracle, 'pk' if cfg['pk'] else 'nopk')
        if 'numkey' in cfg['cols']:
            sig += '/number-key' + ('+bloom' if cfg['bloom'] else '')
        if oracle == 'downstream-json-strings':
            sig = oracle
        if sig not in seen_sig:
            seen_sig.add(sig)
            out['viol'].append((sig, what, {'cfg': cfg, 'hist': hist}))

    with core.scratch_dir() as d:
        db = os.path.join(d, 'db.sqlite')
        blob0 = None
        if cfg.get('neighbours'):
            # the database already holds other tables whose names share a prefix / suffix / infix with the target 't'
            import sqlite3
            c = sqlite3.connect(db)
            for name in NEIGHBOURS:
                c.execute('create table %s (k text, v text)' % name)
                c.execute('insert into %s values (?, ?)' % name, ('n', name))
            c.commit()
            c.close()
            with open(db, 'rb') as f:
                blob0 = f.read()
        states = {cj(None): (blob0, None, [])}      # canon key -> (file bytes, model table, history)
        frontier = collections.deque([cj(None)])
        while frontier:
            key = frontier.popleft()
            blob, table, hist = states[key]
            if len(hist) >= depth:
                continue
            phase = (len(hist) % 2) if cfg.get('schema_change') else None
            for mode in cfg.get('modes', MODES):
                for bi, batch in enumerate(BATCHES):
                    if os.path.exists(db):
                        os.remove(db)
                    if blob is not None:
                        with open(db, 'wb') as f:
                            f.write(blob)
                    h2 = hist + [[mode, bi]]
                    label = 'config %s, history %s' % (cj(cfg), ' ; '.join('%s%s' % (m, BATCHES[b]) for m, b in h2))
                    mrows = [mkrow(k, v, cfg['cols'], phase) for k, v in batch]
                    if cfg.get('pk_other'):
                        for row in mrows:
                            row['u'] = '%s/%s/%s' % (row['k'], row['v'], mode)
                    exp = model_apply(table, mode, mrows, cfg['pk'])
                    if cfg.get('pk_other') and exp != 'rejected':
                        us = [t['u'] for t in exp[0]]
                        if len(set(us)) != len(us):
                            exp = 'rejected'          # the database enforces the schema's primary key
                    kind, got, inrows = do_dump(db, cfg, mode, batch, phase)
                    out['n'] += 1
                    out['transitions'] += 1
                    out['keys'].append(h([cfg, key, mode, bi]))
                    if kind == 'exc':
                        oc = 'rejected' if exp == 'rejected' else 'raises'
                        out['outcomes'][oc] = out['outcomes'].get(oc, 0) + 1
                        if exp != 'rejected':
                            V('dump-raises/%s' % mode, '%s: raises %s: %s' % (label, core.exc_sig(got), str(got)[:100].replace('\n', ' ')), h2)
                        continue
                    if exp == 'rejected':
                        out['outcomes']['accepted-dup-key'] = out['outcomes'].get('accepted-dup-key', 0) + 1
                        V('pk-duplicate-accepted/%s' % mode, '%s: a duplicate primary key was accepted' % label, h2)
                        continue
                    newtable, flags = exp
                    actual = db_rows(db, cfg['cols'])
                    out['outcomes'][mode] = out['outcomes'].get(mode, 0) + 1
                    if canon(actual) != canon(newtable):
                        V('table/%s' % mode, '%s: table holds %s, mode prescribes %s' % (label, canon(actual), canon(newtable)), h2)
                        continue
                    if cfg.get('neighbours'):
                        bad = neighbours_damaged(db)
                        if bad:
                            V('neighbour-table/%s' % mode, '%s: %s' % (label, bad), h2)
                            continue
                    if cfg.get('two'):
                        actual2 = db_rows(db, cfg['cols'], 't2')
                        if canon(actual2) != canon(newtable):
                            V('second-table/%s' % mode, '%s: the second table written by the same step holds %s, mode prescribes %s'
                              % (label, canon(actual2), canon(newtable)), h2)
                            continue
                    # downstream rows
                    got_flags = [r.get('_upd') for r in got]
                    if len(got) != len(inrows):
                        V('downstream-rows/%s' % mode, '%s: %d rows continue downstream, %d were dumped' % (label, len(got), len(inrows)), h2)
                    else:
                        if got_flags != flags:
                            V('updated-flag/%s' % mode, '%s: updated flags %r, truth %r' % (label, got_flags, flags), h2)
                        plain = [{k: v for k, v in r.items() if k != '_upd'} for r in got]
                        if enc_rows(plain) != enc_rows(inrows):
                            scal = [{k: v for k, v in r.items() if k in ('k', 'v')} for r in plain]
                            if enc_rows(scal) == enc_rows([{k: v for k, v in r.items() if k in ('k', 'v')} for r in inrows]):
                                V('downstream-json-strings', '%s: array/object cells continue downstream as JSON text: %r' % (label, plain), h2)
                            else:
                                V('downstream-values/%s' % mode, '%s: rows downstream %r differ from the dumped %r' % (label, plain, inrows), h2)
                    k2 = cj(canon(actual))
                    if k2 not in states:
                        with open(db, 'rb') as f:
                            states[k2] = (f.read(), newtable, h2)
                        frontier.append(k2)
                        out['traces'] += 1
        out['states'] = len(states)
    out['sample'] = {'cfg': cfg, 'depth': depth, 'distinct_table_states': out['states'],
                     'ops': '%d modes x %d batches' % (len(MODES), len(BATCHES))}
    return out


def prebuilt_history(args):
    """Every Flow (hence every SQLDumper) of the history is built up front, then they run in order."""
    cfg, hist = args
    viol = []
    with core.scratch_dir() as d:
        db = os.path.join(d, 'db.sqlite')
        flows, table, label = [], None, 'config %s, dumpers built up front, history %s' % (cj(cfg), ' ; '.join('%s%s' % (m, BATCHES[b]) for m, b in hist))
        for mode, bi in hist:
            cols = cfg['cols']
            fields = [('k', 'string'), ('v', 'string')] + ([('arr', 'array')] if ('arr' in cols or 'arr2' in cols or 'arr3' in cols) else []) + ([('obj', 'object')] if 'obj' in cols else [])
            st = mkstate([('r', fields, [mkrow(k, v, cols) for k, v in BATCHES[bi]])])
            tbl = {'resource-name': 'r', 'mode': mode}
            if mode == 'update':
                tbl['update_keys'] = ['k']
            flows.append(core.Flow(core.from_state(st), core.dataflows.dump_to_sql({'t': tbl}, engine='sqlite:///' + db,
                                                                                   batch_size=cfg['batch_size'], use_bloom_filter=cfg['bloom'])))
        for (mode, bi), flow in zip(hist, flows):
            exp = model_apply(table, mode, [mkrow(k, v, cfg['cols']) for k, v in BATCHES[bi]], False)
            try:
                flow.process()
            except Exception as e:
                viol.append(('prebuilt-raises/%s' % mode, '%s: raises %s: %s' % (label, core.exc_sig(e), str(e)[:100]), {'cfg': cfg, 'prebuilt': hist}))
                break
            table = exp[0]
            actual = db_rows(db, cfg['cols'])
            if canon(actual) != canon(table):
                viol.append(('prebuilt-table/%s' % mode, '%s: after %s the table holds %s, mode prescribes %s' % (label, mode, canon(actual), canon(table)),
                             {'cfg': cfg, 'prebuilt': hist}))
                break
    return {'n': 1, 'key': h(['prebuilt', cfg, hist]), 'outcome': 'prebuilt-ok' if not viol else 'prebuilt-violated', 'viol': viol[:1],
            'states': 0, 'transitions': len(hist), 'traces': 1}


def engine_object_history(hist):
    """The caller hands dump_to_sql an Engine object (here: an in-memory SQLite database, which lives exactly as long as the
    engine's connection) instead of a URL: every dump of the history uses that same engine."""
    import sqlalchemy
    cfg = {'pk': False, 'batch_size': 1000, 'bloom': True, 'cols': []}
    label = 'one in-memory Engine object shared by the dumps, history %s' % ' ; '.join('%s%s' % (m, BATCHES[b]) for m, b in hist)
    viol, table = [], None
    engine = sqlalchemy.create_engine('sqlite://')
    try:
        for mode, bi in hist:
            rows = [mkrow(k, v, []) for k, v in BATCHES[bi]]
            st = mkstate([('r', [('k', 'string'), ('v', 'string')], rows)])
            tbl = {'resource-name': 'r', 'mode': mode}
            if mode == 'update':
                tbl['update_keys'] = ['k']
            exp = model_apply(table, mode, rows, False)
            try:
                out = core.materialise(core.from_state(st), core.dataflows.dump_to_sql({'t': tbl}, engine=engine, updated_column='_upd'))
            except Exception as e:
                viol.append(('engine-object-raises/%s' % mode, '%s: raises %s: %s' % (label, core.exc_sig(e), str(e)[:100]), {'engine_object': hist}))
                break
            table, flags = exp
            try:
                with engine.connect() as c:
                    actual = [dict(zip(('k', 'v'), r)) for r in c.execute(sqlalchemy.text('select k, v from t'))]
            except Exception as e:
                actual = 'unreadable (%s)' % type(e).__name__
            if actual == 'unreadable' or canon(actual if isinstance(actual, list) else None) != canon([{'k': r['k'], 'v': r['v']} for r in table]):
                viol.append(('engine-object-table/%s' % mode, '%s: after %s the table holds %s, mode prescribes %s' %
                             (label, mode, actual, table), {'engine_object': hist}))
                break
            if [r.get('_upd') for r in out.rows[0]] != flags:
                viol.append(('engine-object-flags/%s' % mode, '%s: updated flags %r, truth %r' % (label, [r.get('_upd') for r in out.rows[0]], flags),
                             {'engine_object': hist}))
                break
    finally:
        engine.dispose()
    return {'n': 1, 'key': h(['engine-object', hist]), 'outcome': 'engine-object-ok' if not viol else 'engine-object-violated', 'viol': viol[:1],
            'states': 0, 'transitions': len(hist), 'traces': 1}


def engine_object_cases(tier):
    import itertools as it
    ops = [(m, b) for m in MODES for b in (1, 3, 5)]
    out = []
    for n in (2, 3) if tier == 'thorough' else (2,):
        for hist in it.product(ops, repeat=n):
            out.append([list(x) for x in hist])
    return out


def prebuilt_cases(tier):
    out = []
    import itertools as it
    ops = [(m, b) for m in MODES for b in (1, 2, 3)]
    cfgs = [{'pk': False, 'batch_size': 1000, 'bloom': True, 'cols': []}, {'pk': False, 'batch_size': 1, 'bloom': False, 'cols': ['arr']}]
    for cfg in cfgs:
        for n in (2, 3) if tier == 'thorough' else (2,):
            for hist in it.product(ops, repeat=n):
                out.append((cfg, [list(x) for x in hist]))
    return out


def configs(tier):
    out = []
    for pk in (False, True):
        for bs in (1, 2, 1000):
            for bloom in (True, False):
                for cols in ([], ['arr'], ['arr', 'obj']):
                    out.append({'pk': pk, 'batch_size': bs, 'bloom': bloom, 'cols': cols})
    if tier == 'quick':
        out = [c for c in out if (c['cols'] != ['arr']) and not (c['batch_size'] == 2 and c['bloom'] is False)]
    for bloom in (True, False):
        out.append({'pk': False, 'batch_size': 1000, 'bloom': bloom, 'cols': ['numkey']})
        out.append({'pk': False, 'batch_size': 1000, 'bloom': bloom, 'cols': [], 'pk_other': True})
    out.append({'pk': False, 'batch_size': 1000, 'bloom': True, 'cols': [], 'keys_always': True})
    out.append({'pk': False, 'batch_size': 1000, 'bloom': True, 'cols': [], 'neighbours': True})
    for pk in (False, True):
        out.append({'pk': pk, 'batch_size': 1000, 'bloom': True, 'cols': [], 'schema_change': True, 'modes': ['rewrite']})
    out.append({'pk': False, 'batch_size': 1000, 'bloom': True, 'cols': [], 'unmapped': True})
    out.append({'pk': False, 'batch_size': 1000, 'bloom': True, 'cols': ['arr2']})
    out.append({'pk': False, 'batch_size': 1000, 'bloom': True, 'cols': ['arr3']})
    out.append({'pk': True, 'batch_size': 1, 'bloom': False, 'cols': ['arr3']})
    out.append({'pk': True, 'batch_size': 1000, 'bloom': True, 'cols': [], 'keys_none': True})
    out.append({'pk': False, 'batch_size': 1, 'bloom': False, 'cols': ['arr', 'obj'], 'keys_always': True})
    # one step writing two tables with the same column names
    for pk in (False, True):
        for cols in ([], ['arr', 'obj']):
            out.append({'pk': pk, 'batch_size': 1000, 'bloom': True, 'cols': cols, 'two': True})
    return out


def run(run):
    depth = 3 if run.tier == 'quick' else 5
    tasks = [{'cfg': c, 'depth': depth} for c in configs(run.tier)]
    k = run.seed % len(tasks)
    tasks = tasks[k:] + tasks[:k]
    for res in run.map(explore, tasks, chunksize=1, limit=3000):
        run.absorb(res)
    for res in run.map(prebuilt_history, prebuilt_cases(run.tier), chunksize=4, limit=600):
        run.absorb(res)
    for res in run.map(engine_object_history, engine_object_cases(run.tier), chunksize=4, limit=600):
        run.absorb(res)
    run.rule = ('per configuration (update keys explicit / from primaryKey x batch_size 1,2,1000 x bloom filter on/off x '
                'scalar/+array/+object columns): BFS over dump histories up to depth %d with state merging on the table '
                'content; from every distinct table state every (mode, batch) op is executed once; ops = 3 modes x 7 '
                'batches over keys {k1,k2} x values {x,y,null-cells}; distinct by (config, state, op)' % depth)
    run.explanation = ('states = distinct table contents reached (per config, summed); transitions = real dump_to_sql '
                       'executions on a copy of the state\'s SQLite file, each compared with a list model (rewrite / '
                       'append / update-last-write-wins), the downstream rows and the updated flag')
    run.assumptions.append('SQLite only; a duplicate primary key rejected by the database is a loud rejection, not a violation')


def replay(w):
    if 'engine_object' in w:
        return engine_object_history(w['engine_object'])['viol']
    if 'prebuilt' in w:
        return prebuilt_history((w['cfg'], w['prebuilt']))['viol']
    r = explore({'cfg': w['cfg'], 'depth': len(w['hist'])})
    return r['viol']
