"""C09 - dump statistics describe the bytes on disk (E2)."""
import os
import copy
import json
import hashlib
import zipfile

from .. import core, e2, dumps
from ..core import cj, enc, dec

LEVEL = 'exploration'

COUNTERS = {
    'default': None,
    'renamed': {'datapackage-rowcount': 'rows_total', 'datapackage-bytes': 'size_total', 'datapackage-hash': 'digest',
                'resource-rowcount': 'rows', 'resource-bytes': 'size', 'resource-hash': 'md5'},
    'dotted': {'datapackage-rowcount': 'stats.rows', 'datapackage-bytes': 'stats.bytes', 'datapackage-hash': 'stats.hash',
               'resource-rowcount': 'stats.rows', 'resource-bytes': 'stats.bytes', 'resource-hash': 'stats.hash'},
    'dotted2': {'datapackage-rowcount': 'meta.stats.rows', 'datapackage-bytes': 'meta.stats.bytes', 'datapackage-hash': 'meta.stats.hash',
                'resource-rowcount': 'meta.stats.rows', 'resource-bytes': 'meta.file.bytes', 'resource-hash': 'meta.file.md5'},
    'no-dp-rowcount': {'datapackage-rowcount': None}, 'no-dp-bytes': {'datapackage-bytes': None},
    'no-dp-hash': {'datapackage-hash': None}, 'no-res-rowcount': {'resource-rowcount': None},
    'no-res-bytes': {'resource-bytes': None}, 'no-res-hash': {'resource-hash': None},
    'no-bytes-no-hash': {'resource-bytes': None, 'datapackage-bytes': None, 'resource-hash': None},
    'rowcounts-only': {'resource-bytes': None, 'datapackage-bytes': None, 'resource-hash': None, 'datapackage-hash': None},
    'all-disabled': {'resource-bytes': None, 'datapackage-bytes': None, 'resource-hash': None, 'datapackage-hash': None,
                     'resource-rowcount': None, 'datapackage-rowcount': None},
}
DEFAULT_NAMES = {'datapackage-rowcount': 'count_of_rows', 'datapackage-bytes': 'bytes', 'datapackage-hash': 'hash',
                 'resource-rowcount': 'count_of_rows', 'resource-bytes': 'bytes', 'resource-hash': 'hash'}
TABLES = {
    'ascii': [('r0', [('i', 'integer'), ('s', 'string')], [{'i': 1, 's': 'a'}, {'i': 2, 's': 'b,c'}])],
    'multibyte': [('r0', [('s', 'string')], [{'s': 'é😀'}, {'s': 'ü'}, {'s': 'l1\nl2'}])],
    'empty': [('r0', [('i', 'integer')], [])],
    'bad-rows': [('r0', [('i', 'integer'), ('s', 'string')], [{'i': 1, 's': 'a'}, {'i': 'x', 's': 'b'}, {'i': 3, 's': 'c'}, {'i': 'y', 's': 'd'}]),
                 ('r1', [('i', 'integer')], [{'i': 'z'}])],
    'nonascii-names': [('r0', [('é😀', 'string'), ('ü', 'integer')], [{'é😀': 'x', 'ü': 1}])],
    'long': [('r0', [('i', 'integer'), ('s', 'string')], [{'i': k, 's': 'row-%05d-%s' % (k, 'x' * 20)} for k in range(700)])],
    'two': [('r0', [('i', 'integer')], [{'i': 1}]), ('r1', [('s', 'string')], [{'s': 'é'}, {'s': None}])],
    # the incoming descriptor declares a non-UTF-8 encoding (as after load(csv, encoding='latin-1')); set in table_state()
    'declared-encoding': [('r0', [('i', 'integer'), ('s', 'string')], [{'i': 1, 's': 'café'}, {'i': 2, 's': 'naïve ü'}]),
                          ('r1', [('s', 'string')], [{'s': 'plain'}])],
    # resources whose paths have a directory part (set in check())
    'nested-paths': [('r0', [('i', 'integer')], [{'i': 1}]), ('r1', [('s', 'string')], [{'s': 'é'}, {'s': None}])],
    'three': [('r0', [('i', 'integer')], [{'i': 1}, {'i': 2}, {'i': 3}]), ('r1', [('s', 'string')], []), ('r2', [('n', 'number')], [{'n': 0.5}])],
}


def get_attr(obj, prop):
    if prop is None:
        return None
    for p in prop.split('.'):
        if not isinstance(obj, dict) or p not in obj:
            return None
        obj = obj[p]
    return obj


def names_for(counters):
    n = dict(DEFAULT_NAMES)
    n.update(COUNTERS[counters] or {})
    return n


def table_state(table):
    st = dumps.build_state(copy.deepcopy(TABLES[table]))
    if table == 'declared-encoding':
        for r, enc_ in zip(st.desc['resources'], ('latin-1', 'utf-8-sig')):
            r['encoding'] = enc_
    if table == 'nested-paths':
        for k, r in enumerate(st.desc['resources']):
            r['path'] = 'data/sub%d/%s.csv' % (k, r['name']) if k else 'data/%s.csv' % r['name']
    return st


def check(case):
    cfg = case['cfg']
    st = table_state(case['table'])
    opts = {'format': cfg['format']}
    if COUNTERS[cfg['counters']] is not None:
        opts['counters'] = copy.deepcopy(COUNTERS[cfg['counters']])
    if cfg.get('filehash'):
        opts['add_filehash_to_path'] = True
    if 'pretty' in cfg:
        opts['pretty_descriptor'] = cfg['pretty']
    if case['table'] == 'bad-rows':
        # the dumper's own validator is told to drop uncastable rows: the counters must describe what was written
        opts['validator_options'] = {'on_error': core.dataflows.base.schema_validator.drop}
    nm = names_for(cfg['counters'])
    label = 'dump_to_%s(%s) of table set %r' % (cfg['how'], cj({k: v for k, v in cfg.items() if k != 'how'}), case['table'])
    viol = []

    def V(oracle, what):
        viol.append(('%s/%s' % (oracle, cfg['format']), '%s: %s' % (label, what)))

    with core.scratch_dir() as d:
        def one(sub, state):
            dd = os.path.join(d, sub)
            os.makedirs(dd)
            if cfg['how'] == 'path':
                step = core.dataflows.dump_to_path(os.path.join(dd, 'out'), **copy.deepcopy(opts))
            else:
                step = core.dataflows.dump_to_zip(os.path.join(dd, 'out.zip'), **copy.deepcopy(opts))
            tail = []
            if cfg.get('consumer') == 'lookup':
                def lookup(package):
                    # uses the second resource as a lookup table: reads it completely before the rows of the first one
                    yield package.pkg
                    it = iter(package)
                    a = next(it)
                    b = next(it)
                    rows_b = list(b)
                    yield a
                    yield iter(rows_b)
                    yield from it
                tail = [lookup]
            dp, stats = core.Flow(core.from_state(state, sequential=False if tail else None), step, *tail).process()
            if cfg['how'] == 'zip':
                root = os.path.join(dd, 'unz')
                with zipfile.ZipFile(os.path.join(dd, 'out.zip')) as z:
                    z.extractall(root)
            else:
                root = os.path.join(dd, 'out')
            wdesc = json.load(open(os.path.join(root, 'datapackage.json'), encoding='utf-8'))
            return wdesc, stats, root
        try:
            wdesc, stats, root = one('first', st)
        except core.CaseTimeout:
            raise
        except Exception as e:
            return [('dump-raises/%s' % cfg['format'], '%s raises %s: %s' % (label, core.exc_sig(e), str(e)[:120]))], 'violated', True
        tot_rows = tot_bytes = 0
        for i, r in enumerate(wdesc['resources']):
            facts = dumps.file_facts(root, r)
            if facts is None:
                V('path', 'recorded path %r does not exist' % r['path'])
                continue
            try:
                nrows = len(dumps.decode_resource(root, r))
            except Exception as e:
                V('file-undecodable', '%s: %s cannot be decoded (%s: %s) - %d bytes on disk' % (r['name'], r['path'], type(e).__name__, str(e)[:60], facts['bytes']))
                continue
            exp_rows = len([r for r in TABLES[case['table']][i][2] if not isinstance(r.get('i'), str)]) \
                if case['table'] == 'bad-rows' else len(TABLES[case['table']][i][2])
            if nrows != exp_rows:
                V('file-incomplete', '%s: the file holds %d rows, %d were dumped' % (r['name'], nrows, exp_rows))
            tot_rows += nrows
            tot_bytes += facts['bytes']
            rb, rh, rc = get_attr(r, nm['resource-bytes']), get_attr(r, nm['resource-hash']), get_attr(r, nm['resource-rowcount'])
            if nm['resource-bytes'] and rb != facts['bytes']:
                V('resource-bytes', '%s records %r bytes, the file has %d' % (r['name'], rb, facts['bytes']))
            if nm['resource-hash'] and rh != facts['md5']:
                V('resource-hash', '%s records hash %r, the file\'s md5 is %s' % (r['name'], rh, facts['md5']))
            if nm['resource-rowcount'] and rc != nrows:
                V('resource-rowcount', '%s records %r rows, the file holds %d' % (r['name'], rc, nrows))
            if cfg.get('filehash') and nm['resource-hash'] and facts['md5'] not in r['path']:
                V('filehash-path', '%s: path %r does not contain the file hash' % (r['name'], r['path']))
            for key, prop in (('resource-bytes', nm['resource-bytes']), ('resource-hash', nm['resource-hash']), ('resource-rowcount', nm['resource-rowcount'])):
                if COUNTERS[cfg['counters']] and key in COUNTERS[cfg['counters']] and COUNTERS[cfg['counters']][key] is None:
                    if DEFAULT_NAMES[key] in r:
                        V('disabled-counter-written', '%s: %s is disabled but %r was recorded' % (r['name'], key, DEFAULT_NAMES[key]))
        pr, pb, ph = get_attr(wdesc, nm['datapackage-rowcount']), get_attr(wdesc, nm['datapackage-bytes']), get_attr(wdesc, nm['datapackage-hash'])
        if nm['datapackage-rowcount'] and pr != tot_rows:
            V('package-rowcount', 'package records %r rows, the resources hold %d' % (pr, tot_rows))
        if nm['datapackage-bytes'] and pb != tot_bytes:
            dsize = os.path.getsize(os.path.join(root, 'datapackage.json'))
            V('package-bytes', 'package records %r bytes, the data files total %d (datapackage.json itself: %d)' % (pb, tot_bytes, dsize))
        # stats returned by process() agree with the written descriptor
        if stats.get('count_of_rows') != pr:
            V('stats-rowcount', 'process() stats count_of_rows=%r, written descriptor %r' % (stats.get('count_of_rows'), pr))
        if stats.get('bytes') != pb:
            dsize = os.path.getsize(os.path.join(root, 'datapackage.json'))
            if pb is not None and stats.get('bytes') == pb + dsize:
                V('stats-bytes', 'process() stats bytes=%r, written descriptor %r' % (stats.get('bytes'), pb))
            else:
                V('stats-bytes-unexplained', 'process() stats bytes=%r is neither the written descriptor\'s %r nor that plus the '
                  'size of datapackage.json on disk (%d)' % (stats.get('bytes'), pb, dsize))
        if stats.get('hash') != ph:
            V('stats-hash', 'process() stats hash=%r, written descriptor %r' % (stats.get('hash'), ph))
        # dumping the same data twice gives identical hashes
        wdesc2, stats2, root2 = one('second', table_state(case['table']))
        h1 = [get_attr(r, nm['resource-hash']) for r in wdesc['resources']] + [ph]
        h2 = [get_attr(r, nm['resource-hash']) for r in wdesc2['resources']] + [get_attr(wdesc2, nm['datapackage-hash'])]
        if h1 != h2 and cfg['format'] != 'excel':      # a workbook embeds its creation time: not reproducible by construction
            V('hash-unstable', 'two dumps of the same data record hashes %r and %r' % (h1, h2))
        # re-dump of a loaded dump (descriptor already carrying counters)
        if cfg.get('redump') and cfg['how'] == 'path':
            try:
                back = core.materialise(core.dataflows.load(os.path.join(root, 'datapackage.json')), via='results')
                if cfg.get('carry_meta'):
                    # the package-level properties of the earlier dump travel along (update_package(**old_descriptor)):
                    # the totals it recorded must not be added to
                    for k_, v_ in wdesc.items():
                        if k_ != 'resources':
                            back.desc[k_] = copy.deepcopy(v_)
                wdesc3, stats3, root3 = one('third', back)
                tot_b3 = 0
                for r in wdesc3['resources']:
                    facts = dumps.file_facts(root3, r)
                    if facts is None:
                        V('redump-path', 're-dump: recorded path %r does not exist' % r['path'])
                        continue
                    tot_b3 += facts['bytes']
                    if nm['resource-bytes'] and get_attr(r, nm['resource-bytes']) != facts['bytes']:
                        V('redump-resource-bytes', 're-dump of a loaded dump: %s records %r bytes, the file has %d' %
                          (r['name'], get_attr(r, nm['resource-bytes']), facts['bytes']))
                    if nm['resource-rowcount'] and get_attr(r, nm['resource-rowcount']) != len(dumps.decode_resource(root3, r)):
                        V('redump-resource-rowcount', 're-dump of a loaded dump: %s records %r rows, the file holds %d' %
                          (r['name'], get_attr(r, nm['resource-rowcount']), len(dumps.decode_resource(root3, r))))
                if nm['datapackage-bytes'] and get_attr(wdesc3, nm['datapackage-bytes']) != tot_b3:
                    V('redump-package-bytes', 're-dump of a loaded dump%s: package records %r bytes, the data files total %d' %
                      (' carrying the old package properties' if cfg.get('carry_meta') else '', get_attr(wdesc3, nm['datapackage-bytes']), tot_b3))
                if nm['datapackage-rowcount'] and get_attr(wdesc3, nm['datapackage-rowcount']) != tot_rows:
                    V('redump-package-rowcount', 're-dump of a loaded dump: package records %r rows, the resources hold %d' %
                      (get_attr(wdesc3, nm['datapackage-rowcount']), tot_rows))
            except core.CaseTimeout:
                raise
            except Exception as e:
                V('redump-raises', 're-dump of the loaded dump raises %s: %s' % (core.exc_sig(e), str(e)[:100]))
        # the same Flow object processed again (fresh output location): identical counters and hashes
        if cfg.get('rerun') and cfg['how'] == 'path':
            try:
                outs = []
                loc = [None]

                class Redirect(core.dataflows.dump_to_path):
                    pass
                step = core.dataflows.dump_to_path(os.path.join(d, 'rr'), **copy.deepcopy(opts))
                flow = core.Flow(core.from_state(st), step)
                for k in range(3):
                    import shutil
                    shutil.rmtree(os.path.join(d, 'rr'), ignore_errors=True)
                    dp_k, stats_k = flow.process()
                    wd = json.load(open(os.path.join(d, 'rr', 'datapackage.json'), encoding='utf-8'))
                    outs.append((get_attr(wd, nm['datapackage-rowcount']), get_attr(wd, nm['datapackage-bytes']), get_attr(wd, nm['datapackage-hash']),
                                 [get_attr(r, nm['resource-rowcount']) for r in wd['resources']], stats_k.get('count_of_rows')))
                if len(set(map(cj, outs))) != 1:
                    V('rerun-differs', 'the same Flow object processed three times records (rows, bytes, hash, per-resource rows, stats rows) = %r' % (outs,))
            except core.CaseTimeout:
                raise
            except Exception as e:
                V('rerun-raises', 'processing the same Flow object again raises %s: %s' % (core.exc_sig(e), str(e)[:100]))
        # dump after dump: different data dumped into the SAME location must be described by the descriptor found there
        if cfg.get('overwrite') and cfg['how'] == 'path':
            dd = os.path.join(d, 'first')
            other = 'ascii' if case['table'] != 'ascii' else 'multibyte'
            if cfg.get('samesize'):
                other = case['table']
            tbl2 = copy.deepcopy(TABLES[other])
            if cfg.get('samesize'):
                # the same shape and byte lengths, different content
                for _, _, rows in tbl2:
                    for r in rows:
                        for k, v in r.items():
                            if isinstance(v, str) and v:
                                r[k] = ('Z' if v[0] != 'Z' else 'Y') + v[1:]
                            elif isinstance(v, int) and not isinstance(v, bool) and 0 <= v < 9:
                                r[k] = v + 1
            st2 = dumps.build_state(tbl2)
            try:
                core.Flow(core.from_state(st2), core.dataflows.dump_to_path(os.path.join(dd, 'out'), **copy.deepcopy(opts))).process()
                wd = json.load(open(os.path.join(dd, 'out', 'datapackage.json'), encoding='utf-8'))
                want = [len([r for r in t[2] if not (other == 'bad-rows' and isinstance(r.get('i'), str))]) for t in TABLES[other]]
                got = []
                for r in wd['resources']:
                    facts = dumps.file_facts(os.path.join(dd, 'out'), r)
                    got.append(len(dumps.decode_resource(os.path.join(dd, 'out'), r)) if facts else None)
                    if facts and 'hash' in r and r['hash'] != facts['md5']:
                        V('overwrite-hash', 'after dumping different data of the same size over an earlier dump, %s on disk does not '
                          'match the hash its new descriptor records' % r['path'])
                if got != want:
                    V('overwrite-stale', 'after dumping table set %r over an earlier dump of %r in the same directory, datapackage.json '
                      'describes resources with %r rows; the second dump wrote %r' % (other, case['table'], got, want))
            except core.CaseTimeout:
                raise
            except Exception as e:
                V('overwrite-raises', 'second dump into the same directory raises %s: %s' % (core.exc_sig(e), str(e)[:100]))
    uniq, seen = [], set()
    for v in viol:
        if v[0] not in seen:
            seen.add(v[0])
            uniq.append(v)
    return uniq, 'ok' if not uniq else 'violated', True


def cases(tier):
    out = []
    for table in TABLES:
        for fmt in ('csv', 'json'):
            for how in ('path', 'zip'):
                for counters in COUNTERS:
                    if tier == 'quick' and how == 'zip' and counters not in ('default', 'dotted'):
                        continue
                    out.append({'table': table, 'cfg': {'format': fmt, 'how': how, 'counters': counters}})
                for fh in (True,):
                    for pretty in (True, False):
                        out.append({'table': table, 'cfg': {'format': fmt, 'how': how, 'counters': 'default', 'filehash': fh, 'pretty': pretty}})
                        out.append({'table': table, 'cfg': {'format': fmt, 'how': how, 'counters': 'renamed', 'filehash': fh, 'pretty': pretty}})
                out.append({'table': table, 'cfg': {'format': fmt, 'how': how, 'counters': 'default', 'pretty': False}})
            if len(TABLES[table]) >= 2:
                for how in ('path', 'zip'):
                    out.append({'table': table, 'cfg': {'format': fmt, 'how': how, 'counters': 'default', 'consumer': 'lookup'}})
                out.append({'table': table, 'cfg': {'format': fmt, 'how': 'path', 'counters': 'dotted', 'consumer': 'lookup'}})
            out.append({'table': table, 'cfg': {'format': fmt, 'how': 'path', 'counters': 'default', 'redump': True}})
            out.append({'table': table, 'cfg': {'format': fmt, 'how': 'path', 'counters': 'default', 'rerun': True}})
            out.append({'table': table, 'cfg': {'format': fmt, 'how': 'path', 'counters': 'dotted', 'rerun': True}})
            out.append({'table': table, 'cfg': {'format': fmt, 'how': 'path', 'counters': 'default', 'overwrite': True}})
            out.append({'table': table, 'cfg': {'format': fmt, 'how': 'path', 'counters': 'default', 'overwrite': True, 'samesize': True}})
            out.append({'table': table, 'cfg': {'format': fmt, 'how': 'path', 'counters': 'default', 'overwrite': True, 'filehash': True}})
            out.append({'table': table, 'cfg': {'format': fmt, 'how': 'path', 'counters': 'dotted', 'redump': True}})
            for counters in ('default', 'dotted', 'renamed'):
                out.append({'table': table, 'cfg': {'format': fmt, 'how': 'path', 'counters': counters, 'redump': True, 'carry_meta': True}})
    # the spreadsheet writer saves by file name rather than through the dumper's temporary file handle
    for table in ('ascii', 'empty', 'two', 'multibyte'):
        for how in ('path', 'zip'):
            for counters in ('default', 'dotted', 'no-res-hash'):
                out.append({'table': table, 'cfg': {'format': 'excel', 'how': how, 'counters': counters}})
    return out


def run(run):
    cs = cases(run.tier)
    e2.run_cases(run, __name__, cs, batch=20)
    run.rule = ('5 table sets (ascii, multi-byte text with embedded newline, empty resource, two and three resources) x format x '
                'path/zip x counters {default, all renamed, dotted-nested, each of the six individually disabled} x '
                'add_filehash_to_path x pretty_descriptor; every dump is repeated into a second location (identical hashes) and, '
                'for dump_to_path, re-dumped after loading it back (descriptor already carrying counters). distinct by case')
    run.explanation = ('recorded path exists; recorded bytes/md5/row count == os size / md5 / independently decoded rows of that '
                       'file; package totals == sums over resources; process() stats == attributes of the written descriptor')


def replay(w):
    v, _, _ = check(w)
    return [(s, what, w) for s, what in v]
