"""C03 - a dumped data package loads back to the same typed data (E2; library round trip + independent decode)."""
import os
import copy
import json
import itertools

from .. import core, e2, dumps
from ..core import cj, enc, dec

LEVEL = 'exploration'
TYPES = list(dumps.ALPHA)


def make_resources(case):
    """case['tables']: list of {'fields': [[name, type]...], 'rows': [[enc values]...]}"""
    res = []
    for i, t in enumerate(case['tables']):
        rows = [dict(zip([f[0] for f in t['fields']], [dec(v) for v in r])) for r in t['rows']]
        res.append(('res%d' % i, [tuple(f) for f in t['fields']], rows))
    return res


def check(case):
    cfg = case['cfg']
    fmt, how = cfg['format'], cfg['how']
    temporal = 'outputFormat' if cfg.get('temporal') else None
    resources = make_resources(case)
    if temporal:
        # a user-supplied strftime format with %Y cannot represent years < 1000 on this platform (no zero padding, and
        # strptime wants 4 digits); the dumper's own default formats use %04Y. Pre-1000 years are therefore only
        # exercised with the default formats.
        import datetime
        for _, _, rows in resources:
            for r in rows:
                for k, v in r.items():
                    if isinstance(v, (datetime.date, datetime.datetime)) and v.year < 1000:
                        r[k] = v.replace(year=v.year + 1000)
    st = dumps.build_state(resources, pk=cfg.get('pk', False), temporal_prop=temporal, reverse_row_keys=cfg.get('revkeys', False))
    label = 'dump_to_%s(format=%s%s%s%s%s) of %s' % (how, fmt, ', add_filehash_to_path' if cfg.get('filehash') else '',
                                                   ', temporal_format_property' if temporal else '', ', primaryKey' if cfg.get('pk') else '',
                                                   ', row keys in reverse schema order' if cfg.get('revkeys') else '' + (', followed by a step editing rows in place' if cfg.get('mutate_after') else '') + (', into a directory holding an earlier version (one row less)' if cfg.get('over_previous') else ''),
                                                   cj([{'fields': t['fields'], 'rows': t['rows']} for t in case['tables']])[:300])
    opts = {'format': fmt}
    if cfg.get('filehash'):
        opts['add_filehash_to_path'] = True
    if temporal:
        opts['temporal_format_property'] = temporal
    double = fmt == 'json'
    types = sorted({f[1] for t in case['tables'] for f in t['fields']})
    shape = '%s/%s' % (fmt, '+'.join(types) if len(types) <= 2 else 'many')
    viol = []
    if cfg.get('numdialect'):
        # as after set_type(type='number', decimalChar=',', groupChar='.'): the incoming descriptor carries a dialect
        for r in st.desc['resources']:
            for f in r['schema']['fields']:
                if f['type'] == 'number':
                    f['decimalChar'] = ','
                    f['groupChar'] = '.'
    if cfg.get('chain_other_format'):
        # another file dumper of the OTHER format further down the same flow must not disturb this one
        dumps.chain_after[0] = 'json' if fmt == 'csv' else 'csv'
    with core.scratch_dir() as d:
        if cfg.get('over_previous'):
            # the output location already holds an earlier version of the same package (one row less per table)
            prev = make_resources({'tables': [dict(t, rows=t['rows'][:-1]) for t in case['tables']]})
            stp = dumps.build_state(prev, pk=cfg.get('pk', False), temporal_prop=temporal)
            try:
                dumps.run_dump(stp, d, how, **opts)
            except Exception:
                pass
        try:
            dumps.options_after_mutation[0] = bool(cfg.get('mutate_after'))
            try:
                emitted, desc, stats, root, out = dumps.run_dump(st, d, how, **opts)
            finally:
                dumps.options_after_mutation[0] = False
                dumps.chain_after[0] = None
        except core.CaseTimeout:
            raise
        except Exception as e:
            return [('dump-raises/%s' % shape, '%s: the dump raises %s: %s' % (label, core.exc_sig(e), str(e)[:120].replace('\n', ' ')))], 'violated', True
        # O2: independent decode using nothing but the written descriptor
        try:
            wdesc = json.load(open(os.path.join(root, 'datapackage.json'), encoding='utf-8'))
        except Exception as e:
            return [('descriptor-unreadable/%s' % fmt, '%s: datapackage.json unreadable: %s' % (label, e))], 'violated', True
        for i, r in enumerate(wdesc['resources']):
            if not os.path.exists(os.path.join(root, r['path'])):
                viol.append(('file-missing/%s' % fmt, '%s: %s not written' % (label, r['path'])))
                break
            try:
                drows = dumps.decode_resource(root, r)
            except Exception as e:
                viol.append(('independent-decode-fails/%s' % shape, '%s: %s cannot be decoded from its descriptor: %s: %s'
                             % (label, r['path'], type(e).__name__, str(e)[:120])))
                break
            if not dumps.rows_eq(drows, emitted[i], double):
                viol.append(('independent-decode/%s' % shape, '%s: %s decodes to %r, the dumper emitted %r' % (label, r['path'], drows[:3], emitted[i][:3])))
                break
        # O1: the library's own round trip
        src = os.path.join(root, 'datapackage.json') if how == 'path' else out
        try:
            back = core.materialise(core.dataflows.load(src, **({} if how == 'path' else {'format': 'datapackage'})), via='results')
            lrows, ldesc = back.rows, back.desc
        except core.CaseTimeout:
            raise
        except Exception as e:
            order = 'sorted' if all([f[0] for f in t['fields']] == sorted(f[0] for f in t['fields']) for t in case['tables']) else 'unsorted'
            viol.append(('load-back-raises/%s/%s-field-names' % (fmt, order), '%s: load() of the dump raises %s: %s' %
                         (label, core.exc_sig(e), str(e)[:160].replace('\n', ' '))))
            return viol, 'violated', True
    names = [r['name'] for r in ldesc['resources']]
    if names != [r['name'] for r in desc['resources']]:
        viol.append(('resources/%s' % fmt, '%s: loaded resources %r' % (label, names)))
        return viol, 'violated', True
    for i, (lr, er) in enumerate(zip(ldesc['resources'], desc['resources'])):
        lf = [(f['name'], f['type']) for f in lr['schema']['fields']]
        ef = [(f['name'], f['type']) for f in er['schema']['fields']]
        if lf != ef:
            viol.append(('fields/%s' % fmt, '%s: loaded fields %r, dumped %r' % (label, lf, ef)))
        elif lr['schema'].get('primaryKey') != er['schema'].get('primaryKey'):
            viol.append(('primary-key/%s' % fmt, '%s: loaded primaryKey %r, dumped %r' % (label, lr['schema'].get('primaryKey'), er['schema'].get('primaryKey'))))
        elif not dumps.rows_eq(lrows[i], emitted[i], double, strip=True):
            order = 'sorted' if [f[0] for f in ef] == sorted(f[0] for f in ef) else 'unsorted'
            viol.append(('load-back-rows/%s/%s-field-names' % (shape if order == 'sorted' else fmt, order),
                         '%s: loads back as %r, the dumper emitted %r' % (label, lrows[i][:3], emitted[i][:3])))
    nontrivial = any(t['rows'] for t in case['tables'])
    return viol, 'ok' if not viol else 'violated', nontrivial


def configs(tier):
    out = []
    for fmt in ('csv', 'json'):
        for how in ('path', 'zip'):
            for fh in (False, True):
                for temporal in (False, True):
                    out.append({'format': fmt, 'how': how, 'filehash': fh, 'temporal': temporal})
    return out


def one_axis(tier):
    base = {'format': 'csv', 'how': 'path', 'filehash': False, 'temporal': False}
    out = [base]
    for k, v in (('format', 'json'), ('how', 'zip'), ('filehash', True), ('temporal', True), ('pk', True)):
        out.append(dict(base, **{k: v}))
    out.append({'format': 'json', 'how': 'zip', 'filehash': True, 'temporal': True, 'pk': True})
    return out


def cases(tier):
    out = []
    E = lambda v: enc(v)   # noqa
    full = configs(tier)
    axis = one_axis(tier)
    vals = {t: dumps.ALPHA[t] + [None] for t in TYPES}
    # every single-field table with <=2 rows (<=1 in quick for the axis sweep, 2 on the base pair of formats)
    for t in TYPES:
        for n in (0, 1, 2):
            for rows in itertools.product(vals[t], repeat=n):
                tbl = {'fields': [['v', t]], 'rows': [[E(x)] for x in rows]}
                for cfg in axis:
                    if cfg.get('pk') and (len(set(map(cj, tbl['rows']))) != len(tbl['rows']) or [E(None)] in tbl['rows']):
                        continue        # a primary key needs distinct non-null values
                    out.append({'tables': [tbl], 'cfg': cfg})
    # every ordered pair of types as a 2-field table with field names in non-alphabetical order, 2 resources
    k = 0
    for t1 in TYPES:
        for t2 in TYPES:
            r1 = [E(vals[t1][k % len(vals[t1])]), E(vals[t2][(k + 1) % len(vals[t2])])]
            r2 = [E(vals[t1][(k + 2) % len(vals[t1])]), E(None)]
            k += 1
            tbl = {'fields': [['b', t1], ['a', t2]], 'rows': [r1, r2]}
            tbl_sorted = {'fields': [['a', t1], ['b', t2]], 'rows': [r1, r2]}
            second = {'fields': [['z', 'string']], 'rows': [[E('x')]]}
            for cfg in (full if tier == 'thorough' else axis):
                out.append({'tables': [tbl, second], 'cfg': cfg})
            out.append({'tables': [tbl_sorted], 'cfg': {'format': 'json', 'how': 'path'}})
            out.append({'tables': [tbl_sorted], 'cfg': {'format': 'csv', 'how': 'path'}})
    # full config product on a many-typed table
    many = {'fields': [[n, t] for n, t in zip('jihgfedcba', TYPES)], 'rows': [[E(vals[t][0]) for t in TYPES], [E(vals[t][-2]) for t in TYPES],
                                                                               [E(None) for t in TYPES]]}
    many_sorted = {'fields': [[n, t] for n, t in zip('abcdefghij', TYPES)], 'rows': many['rows']}
    # several fields of one temporal type with different output formats (and none), row dicts keyed in reverse schema order
    import datetime
    temporal_tbl = {'fields': [['a_d1', 'date'], ['b_d2', 'date'], ['c_d3', 'date'], ['d_t1', 'time'], ['e_t2', 'time'],
                               ['f_dt1', 'datetime'], ['g_dt2', 'datetime'], ['h_s', 'string'], ['i_n', 'number']],
                    'rows': [[E(datetime.date(2020, 1, 2)), E(datetime.date(2021, 3, 4)), E(datetime.date(2022, 5, 6)),
                              E(datetime.time(1, 2, 3)), E(datetime.time(4, 5, 6)), E(datetime.datetime(2020, 1, 2, 3, 4, 5)),
                              E(datetime.datetime(2021, 6, 7, 8, 9, 10)), E('x'), E(1.5)],
                             [E(datetime.date(2011, 12, 10)), E(None), E(datetime.date(2012, 11, 10)), E(None), E(datetime.time(23, 59, 59)),
                              E(None), E(datetime.datetime(1999, 12, 31, 23, 59, 59)), E(None), E(None)]]}
    temporal_tbl2 = {'fields': [['a_d', 'date'], ['b_t', 'time'], ['c_dt', 'datetime'], ['d_s', 'string']],
                     'rows': [[E(datetime.date(2001, 2, 3)), E(datetime.time(7, 8, 9)), E(datetime.datetime(2002, 3, 4, 5, 6, 7)), E('y')],
                              [E(None), E(datetime.time(0, 0, 0)), E(None), E(None)]]}
    for cfg in full:
        out.append({'tables': [temporal_tbl, temporal_tbl2], 'cfg': cfg})
        out.append({'tables': [temporal_tbl2, {'fields': [['z', 'string']], 'rows': [[E('x')]]}, temporal_tbl], 'cfg': cfg})
    for cfg in full:
        out.append({'tables': [temporal_tbl], 'cfg': cfg})
        out.append({'tables': [temporal_tbl], 'cfg': dict(cfg, revkeys=True)})
        out.append({'tables': [many_sorted], 'cfg': dict(cfg, mutate_after=True)})
        out.append({'tables': [many_sorted], 'cfg': dict(cfg, numdialect=True)})
        out.append({'tables': [{'fields': [['a', 'number'], ['b', 'string']], 'rows': [[E(1234.5), E('x')], [E(-0.25), E(None)], [E(1000000), E('y')]]}],
                    'cfg': dict(cfg, numdialect=True)})
        out.append({'tables': [many_sorted, {'fields': [['z', 'string']], 'rows': [[E('x')]]}], 'cfg': dict(cfg, chain_other_format=True)})
        out.append({'tables': [many_sorted], 'cfg': dict(cfg, revkeys=True)})
    # values of different types that are equal as Python objects (True == 1 == Decimal('1.00'), False == 0): each must be
    # written in its own type's notation, in one table and across the resources of one dump
    import decimal
    eq_tbl = {'fields': [['a_b', 'boolean'], ['b_n', 'number'], ['c_i', 'integer'], ['d_s', 'string']],
              'rows': [[E(True), E(decimal.Decimal('1')), E(1), E('1')], [E(False), E(decimal.Decimal('0.00')), E(0), E('0')],
                       [E(None), E(decimal.Decimal('1.00')), E(1), E('True')]]}
    eq_num = {'fields': [['n', 'number']], 'rows': [[E(decimal.Decimal('1'))], [E(decimal.Decimal('0'))]]}
    eq_bool = {'fields': [['b', 'boolean']], 'rows': [[E(True)], [E(False)]]}
    for cfg in axis:
        if not cfg.get('pk'):
            out.append({'tables': [eq_tbl], 'cfg': cfg})
            out.append({'tables': [eq_bool, eq_num], 'cfg': cfg})
            out.append({'tables': [eq_num, eq_bool], 'cfg': cfg})
    many_sorted_early = {'fields': [[n, t] for n, t in zip('abcdefghij', TYPES)],
                         'rows': [[E(vals[t][0]) for t in TYPES], [E(vals[t][-2]) for t in TYPES]]}
    # two resources whose written files are byte-identical (a table and its copy; two empty tables of one schema)
    twin = {'fields': [['a', 'integer'], ['b', 'string']], 'rows': [[E(1), E('x')], [E(2), E(None)]]}
    empty = {'fields': [['a', 'integer'], ['b', 'string']], 'rows': []}
    for cfg in full:
        if cfg['how'] == 'path':
            out.append({'tables': [twin], 'cfg': dict(cfg, over_previous=True)})
            out.append({'tables': [many_sorted_early], 'cfg': dict(cfg, over_previous=True)})
    for cfg in full:
        out.append({'tables': [twin, copy.deepcopy(twin)], 'cfg': cfg})
        out.append({'tables': [empty, twin, copy.deepcopy(empty)], 'cfg': cfg})
    # every row count around plausible buffer / batch sizes (a writer that buffers rows must close the file correctly for each)
    sizes = list(range(0, 131)) + [192, 200, 255, 256, 257, 500, 512, 1000, 1024, 2048]
    for n in sizes:
        tbl = {'fields': [['i', 'integer'], ['s', 'string']], 'rows': [[E(k), E('r%d' % k if k % 5 else None)] for k in range(n)]}
        for fmt in ('csv', 'json'):
            out.append({'tables': [tbl], 'cfg': {'format': fmt, 'how': 'path', 'filehash': False, 'temporal': False}})
    for cfg in full:
        for pk in (False, True):
            out.append({'tables': [many], 'cfg': dict(cfg, pk=pk)})
            out.append({'tables': [many_sorted, {'fields': [['z', 'string']], 'rows': []}], 'cfg': dict(cfg, pk=pk)})
    return out


def run(run):
    cs = cases(run.tier)
    e2.run_cases(run, __name__, cs, batch=60)
    run.rule = ('tables over string/integer/number/boolean/date/time/datetime/year/array/object with 2-6 adversarial values per type '
                '(+null): every single-field table of <=2 rows, every ordered pair of types as a 2-field table with field names in '
                'non-alphabetical (and alphabetical) order plus a second resource, and a 10-typed table, x format {csv, json} x '
                '{dump_to_path, dump_to_zip} x add_filehash_to_path x temporal_format_property x primaryKey (one axis at a time in '
                'quick, full product on the pairs in thorough and on the 10-typed table always). non-trivial = the table has rows')
    run.explanation = ('O1: load() of the dump equals the rows the dumper emitted downstream (names, order, field types, primary keys, '
                       'typed values; numbers exact for CSV, IEEE double for JSON); O2: each data file decoded with csv/json std modules '
                       'and tableschema casts using only the written descriptor gives the same values')


def replay(w):
    v, _, _ = check(w)
    return [(s, what, w) for s, what in v]
