import os
import sys
import json
import argparse
import importlib


def main():
    ap = argparse.ArgumentParser(prog='check')
    ap.add_argument('prop')
    ap.add_argument('--tier', default=os.environ.get('VERIF_TIER', 'quick'), choices=['quick', 'thorough'])
    ap.add_argument('--replay')
    args = ap.parse_args()
    seed = int(os.environ.get('VERIF_SEED', '0') or 0)
    prop = args.prop.upper()
    m = importlib.import_module('vf.props.%s' % prop.lower())
    if args.replay:
        doc = json.load(open(args.replay, encoding='utf-8'))
        from . import core
        core.setup_logging_quiet()
        import warnings
        warnings.simplefilter('ignore')
        with core.quiet() as buf:
            viol = m.replay(doc['witness'])
        sigs = [v[0] for v in viol]
        if doc['sig'] in sigs:
            print('VIOLATION property=%s replay=%s' % (prop, args.replay))
            for v in viol:
                if v[0] == doc['sig']:
                    print('  sig=%s :: %s' % (v[0], v[1]))
                    break
            sys.exit(1)
        print('replay: signature %s not reproduced (observed: %s)' % (doc['sig'], sigs))
        sys.exit(0)
    from .runner import Run
    run = Run(prop, args.tier, seed, m.LEVEL)
    m.run(run)
    sys.exit(run.finish())


if __name__ == '__main__':
    main()
