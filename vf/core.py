"""Shared plumbing: environment ownership, canonical encodings, the step DSL, from_state,
materialisation of a flow into an explicit state."""
import os
import sys
import io
import copy
import json
import time
import shutil
import signal
import hashlib
import logging
import decimal
import datetime
import functools
import contextlib
import itertools

REPO = os.environ.get('VERIF_REPO', '/repo')
VERIF = os.path.dirname(os.path.dirname(os.path.abspath(__file__)))
if sys.path[0] != REPO:
    sys.path.insert(0, REPO)

import isodate  # noqa: E402
import dataflows  # noqa: E402
from dataflows import Flow, DataStreamProcessor  # noqa: E402
from datapackage import Package  # noqa: E402

assert os.path.abspath(dataflows.__file__).startswith(os.path.abspath(REPO) + os.sep), \
    'dataflows resolves to %s, expected under %s' % (dataflows.__file__, REPO)


def mod(name):
    """processors/__init__ shadows every submodule with its processor: fetch real modules here."""
    import importlib
    importlib.import_module(name)
    return sys.modules[name]


# ----------------------------------------------------------------------------------------------
# semantically neutral speed-up (DESIGN 1.3)
_MEMO_ON = False


def install_memo():
    """Memoise datapackage's validation of its *own bundled profiles* against the meta-schema and
    the registry's file loads. Validation of descriptors against the profiles is untouched."""
    global _MEMO_ON
    if _MEMO_ON or os.environ.get('VERIF_NO_MEMO'):
        return
    from datapackage import profile as _profile, registry as _registry
    checked = set()
    orig_check = _profile.Profile._check_schema

    def _check_schema(self):
        name = self.__dict__.get('_name')
        if isinstance(name, str):
            if name in checked:
                return
            orig_check(self)
            checked.add(name)
        else:
            orig_check(self)
    _profile.Profile._check_schema = _check_schema

    # one registry, one validator per named profile
    reg_cache = {}
    orig_load_registry = _profile.Profile._load_registry

    def _load_registry(self):
        if 'r' not in reg_cache:
            reg_cache['r'] = orig_load_registry(self)
        return reg_cache['r']
    _profile.Profile._load_registry = _load_registry

    schema_cache = {}
    orig_load_schema = _profile.Profile._load_schema

    def _load_schema(self, schema, registry):
        if isinstance(schema, str):
            if schema not in schema_cache:
                schema_cache[schema] = orig_load_schema(self, schema, registry)
            return schema_cache[schema]
        return orig_load_schema(self, schema, registry)
    _profile.Profile._load_schema = _load_schema

    val_cache = {}
    orig_load_validator = _profile.Profile._load_validator

    def _load_validator(self, schema, registry):
        key = id(schema)
        if key in val_cache and val_cache[key][0] is schema:
            return val_cache[key][1]
        v = orig_load_validator(self, schema, registry)
        if any(schema is s for s in schema_cache.values()):
            val_cache[key] = (schema, v)
        return v
    _profile.Profile._load_validator = _load_validator
    _MEMO_ON = True


# ----------------------------------------------------------------------------------------------
# scratch space
_SCRATCH_ROOT = None
_scratch_n = itertools.count()


def scratch_root():
    global _SCRATCH_ROOT
    if _SCRATCH_ROOT is None:
        base = '/dev/shm' if os.path.isdir('/dev/shm') and os.access('/dev/shm', os.W_OK) else \
            os.environ.get('TMPDIR', '/tmp')
        _SCRATCH_ROOT = os.path.join(base, 'verif-%d' % os.getpid())
        os.makedirs(_SCRATCH_ROOT, exist_ok=True)
        os.environ['TMPDIR'] = _SCRATCH_ROOT
        import tempfile
        tempfile.tempdir = _SCRATCH_ROOT
    return _SCRATCH_ROOT


def set_scratch_root(path):
    global _SCRATCH_ROOT
    _SCRATCH_ROOT = path
    os.makedirs(path, exist_ok=True)
    os.environ['TMPDIR'] = path
    import tempfile
    tempfile.tempdir = path


@contextlib.contextmanager
def scratch_dir():
    d = os.path.join(scratch_root(), 'c%d-%d' % (os.getpid(), next(_scratch_n)))
    os.makedirs(d)
    try:
        yield d
    finally:
        shutil.rmtree(d, ignore_errors=True)


@contextlib.contextmanager
def quiet():
    """Capture the library's chatter (printer, checkpoint banners, warnings)."""
    buf = io.StringIO()
    old_out, old_err = sys.stdout, sys.stderr
    sys.stdout = buf
    sys.stderr = buf
    try:
        yield buf
    finally:
        sys.stdout, sys.stderr = old_out, old_err


class CaseTimeout(Exception):
    pass


@contextlib.contextmanager
def time_limit(seconds):
    def handler(signum, frame):
        raise CaseTimeout('case exceeded %ss' % seconds)
    old = signal.signal(signal.SIGALRM, handler)
    signal.alarm(int(seconds))
    try:
        yield
    finally:
        signal.alarm(0)
        signal.signal(signal.SIGALRM, old)


# ----------------------------------------------------------------------------------------------
# canonical encoding of values / rows / descriptors
def enc(v):
    """JSON-able, type-tagged, order-insensitive-for-dicts encoding of a python value."""
    if v is None or isinstance(v, (bool, str)):
        return v
    if isinstance(v, int):
        return v
    if isinstance(v, float):
        return {'$float': repr(v)}
    if isinstance(v, decimal.Decimal):
        return {'$dec': str(v)}
    if isinstance(v, datetime.datetime):
        return {'$datetime': v.isoformat(), '$off': None if v.utcoffset() is None else v.utcoffset().total_seconds()}
    if isinstance(v, datetime.date):
        return {'$date': v.isoformat()}
    if isinstance(v, datetime.time):
        return {'$time': v.isoformat()}
    if isinstance(v, datetime.timedelta):
        return {'$timedelta': v.total_seconds()}
    if isinstance(v, isodate.Duration):
        return {'$duration': isodate.duration_isoformat(v)}
    if isinstance(v, (set, frozenset)):
        return {'$set': sorted((enc(x) for x in v), key=lambda x: json.dumps(x, sort_keys=True))}
    if isinstance(v, tuple):
        return {'$tuple': [enc(x) for x in v]}
    if isinstance(v, list):
        return [enc(x) for x in v]
    if isinstance(v, dict):
        return {str(k): enc(x) for k, x in v.items()}
    return {'$repr': '%s:%r' % (type(v).__name__, v)}


def dec(v):
    """Inverse of enc for the tagged forms used in case descriptions."""
    if isinstance(v, list):
        return [dec(x) for x in v]
    if isinstance(v, dict):
        if '$float' in v:
            return float(v['$float'])
        if '$dec' in v:
            return decimal.Decimal(v['$dec'])
        if '$datetime' in v:
            return datetime.datetime.fromisoformat(v['$datetime'])
        if '$date' in v:
            return datetime.date.fromisoformat(v['$date'])
        if '$time' in v:
            return datetime.time.fromisoformat(v['$time'])
        if '$timedelta' in v:
            return datetime.timedelta(seconds=v['$timedelta'])
        if '$duration' in v:
            return isodate.parse_duration(v['$duration'])
        if '$set' in v:
            return set(_hashable(dec(x)) for x in v['$set'])
        if '$tuple' in v:
            return tuple(dec(x) for x in v['$tuple'])
        return {k: dec(x) for k, x in v.items()}
    return v


def _hashable(x):
    return tuple(x) if isinstance(x, list) else x


def cj(obj):
    return json.dumps(obj, sort_keys=True, ensure_ascii=True, default=lambda o: enc(o))


def h(obj):
    return hashlib.blake2b(cj(obj).encode(), digest_size=10).hexdigest()


def enc_rows(rows):
    return [enc(r) for r in rows]


# ----------------------------------------------------------------------------------------------
# explicit states
class State:
    """A materialised package: descriptor + one row list per resource (+ the name each stream was
    tagged with by the framework)."""
    __slots__ = ('desc', 'rows', 'tags', '_key')

    def __init__(self, desc, rows, tags=None):
        self.desc = desc
        self.rows = rows
        self.tags = tags
        self._key = None

    def key(self):
        if self._key is None:
            self._key = h([self.desc, [enc_rows(r) for r in self.rows]])
        return self._key

    def names(self):
        return [r.get('name') for r in self.desc.get('resources', [])]

    def to_json(self):
        return {'desc': self.desc, 'rows': [enc_rows(r) for r in self.rows]}

    @staticmethod
    def from_json(j):
        return State(j['desc'], [[dec(r) for r in rows] for rows in j['rows']])


SEQUENTIAL_SOURCE = not os.environ.get('VERIF_INDEPENDENT_SOURCE')


class from_state(DataStreamProcessor):
    """Source that installs a descriptor verbatim and yields deep copies of the rows."""

    def __init__(self, state, on_pull=None, sequential=None):
        super().__init__()
        self.state = state
        self.on_pull = on_pull
        self.sequential = SEQUENTIAL_SOURCE if sequential is None else sequential

    def process_datapackage(self, dp):
        return Package(copy.deepcopy(self.state.desc))

    def _rows(self, i, rows):
        for j, r in enumerate(rows):
            if self.on_pull is not None:
                self.on_pull(i, j)
            yield copy.deepcopy(r)

    def _cursor(self):
        """One shared sequential cursor over all resources, like a file being read (the library's own unstream /
        checkpoint replay, concatenate and generator-of-generators sources behave this way): a consumer that skips a
        resource without draining it makes the next resource start inside the skipped one."""
        for i, rows in enumerate(self.state.rows):
            for j, r in enumerate(rows):
                if self.on_pull is not None:
                    self.on_pull(i, j)
                yield ('row', copy.deepcopy(r))
            yield ('end', i)

    def _seq_rows(self, cursor):
        for kind, x in cursor:
            if kind == 'end':
                return
            yield x

    def process_resources(self, resources):
        for _ in resources:   # no upstream expected
            pass
        if self.sequential:
            cursor = self._cursor()
            for _ in self.state.rows:
                yield self._seq_rows(cursor)
            return
        for i, rows in enumerate(self.state.rows):
            yield self._rows(i, rows)


def materialise(*links, via='datastream', twice=False, between=None):
    """Run Flow(*links) and return its explicit State (raw rows unless via='results').
    twice: the same Flow object (hence the same step objects) is executed once before the execution that is reported; a first
    execution that fails is reported as it is. between: called between the two executions (e.g. to clear a call log)."""
    flow = Flow(*links)
    if twice:
        flow.process()
        if between is not None:
            between()
    if via == 'datastream':
        ds = flow.datastream()
        rows, tags = [], []
        for res in ds.res_iter:
            tags.append(res.res.name)
            rows.append(list(res))
        return State(copy.deepcopy(ds.dp.descriptor), rows, tags)
    elif via == 'results':
        results, dp, _ = flow.results()
        return State(copy.deepcopy(dp.descriptor), results, None)
    elif via == 'results_raw':
        # through the driver (exceptions wrapped into ProcessorError) but without the final validation pass
        results, dp, _ = flow.results(on_error=None)
        return State(copy.deepcopy(dp.descriptor), results, None)
    raise ValueError(via)


def mkstate(resources):
    """resources: list of (name, fields[(name,type) or dict], rows) -> State with a committed descriptor."""
    desc = {'resources': []}
    rows = []
    for name, fields, rws in resources:
        fl = []
        for f in fields:
            if isinstance(f, dict):
                fl.append(copy.deepcopy(f))
            else:
                fl.append({'name': f[0], 'type': f[1], 'format': 'default'})
        desc['resources'].append({
            'name': name, 'path': name + '.csv', 'profile': 'tabular-data-resource',
            'schema': {'fields': fl, 'missingValues': ['']}})
        rows.append([dict(r) for r in rws])
    p = Package(desc)
    p.commit()
    return State(copy.deepcopy(p.descriptor), rows)


# ----------------------------------------------------------------------------------------------
# step DSL: JSON-able description -> fresh link object
FUNCS = {}


def fn(name):
    def deco(f):
        FUNCS[name] = f
        return f
    return deco


class Env:
    """Per-execution environment handed to the DSL builder."""

    def __init__(self, scratch=None):
        self.scratch = scratch
        self.log = []      # events written by callbacks
        self.markers = set()
        self.counter = itertools.count()
        self.objs = {}

    def path(self, rel):
        assert self.scratch is not None
        return os.path.join(self.scratch, rel)


def resolve(obj, env):
    if isinstance(obj, list):
        return [resolve(x, env) for x in obj]
    if isinstance(obj, dict):
        if '$fn' in obj:
            f = FUNCS[obj['$fn']]
            if obj.get('env'):
                return f(env, *obj.get('args', []))
            if 'args' in obj:
                return f(*obj['args'])
            return f
        if '$path' in obj:
            return env.path(obj['$path'])
        if '$val' in obj:
            return dec(obj['$val'])
        if '$tuple' in obj:
            return tuple(resolve(x, env) for x in obj['$tuple'])
        return {k: resolve(v, env) for k, v in obj.items()}
    return obj


BUILDERS = {}


def builder(name):
    def deco(f):
        BUILDERS[name] = f
        return f
    return deco


def build(step, env):
    op = step['op']
    if op in BUILDERS:
        return BUILDERS[op](step, env)
    f = getattr(dataflows, op)
    a = resolve(copy.deepcopy(step.get('a', [])), env)
    k = resolve(copy.deepcopy(step.get('k', {})), env)
    return f(*a, **k)


def build_all(steps, env):
    return [build(s, env) for s in steps]


@builder('from_state')
def _b_from_state(step, env):
    st = step['state']
    if not isinstance(st, State):
        st = State.from_json(st)
    return from_state(st, sequential=step.get('sequential'))


@builder('flow')
def _b_flow(step, env):
    return Flow(*build_all(step['steps'], env))


@builder('conditional_true')
def _b_cond(step, env):
    return dataflows.conditional(lambda dp: True, Flow(*build_all(step['steps'], env)))


@builder('iterable')
def _b_iterable(step, env):
    rows = [dec(r) for r in step['rows']]
    if step.get('gen'):
        return (copy.deepcopy(r) for r in rows)
    return [copy.deepcopy(r) for r in rows]


def S(op, *a, **k):
    """Shorthand for a DSL step."""
    d = {'op': op}
    if a:
        d['a'] = list(a)
    if k:
        d['k'] = k
    return d


def step_label(step):
    if step['op'] == 'from_state':
        return 'from_state'
    return cj({k: v for k, v in step.items()})


# ----------------------------------------------------------------------------------------------
def exc_sig(e):
    """Stable short description of an exception (class chain, no addresses)."""
    parts = []
    seen = 0
    while e is not None and seen < 4:
        parts.append(type(e).__name__)
        e = getattr(e, 'cause', None) or e.__cause__
        seen += 1
    return '<'.join(parts)


def run_steps(steps, env=None, via='datastream'):
    """Build fresh links from DSL and materialise. Returns ('ok', State) or ('exc', exception)."""
    env = env or Env()
    try:
        links = build_all(steps, env)
        return 'ok', materialise(*links, via=via)
    except CaseTimeout:
        raise
    except BaseException as e:   # noqa
        if isinstance(e, (KeyboardInterrupt, SystemExit)):
            raise
        return 'exc', e


def setup_logging_quiet():
    logging.disable(logging.CRITICAL)


# ----------------------------------------------------------------------------------------------
# in-process stand-in for multiprocessing (threads + plain queues): used where parallelize is only a
# step of the alphabet (C01/C02/C10); the real schedule exploration is C18's virtual layer.
class FakeMP:
    import queue as _q
    import threading as _t
    Queue = _q.Queue

    class Process(_t.Thread):
        def __init__(self, *a, **k):
            super().__init__(*a, **k)
            self.daemon = True

        def join(self, timeout=None):
            # the library's own grace period (10 s) is kept: a shorter one could report a live worker under heavy load
            super().join(timeout)

        def kill(self):
            pass

        def close(self):
            if self.is_alive():     # as multiprocessing.Process.close() does
                raise ValueError('Cannot close a process while it is still running. '
                                 'You should first call join() or terminate().')


@contextlib.contextmanager
def fake_mp():
    m = mod('dataflows.processors.parallelize')
    old = m.mp
    m.mp = FakeMP
    try:
        yield
    finally:
        m.mp = old
