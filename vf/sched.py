"""E3 - schedule explorer: a virtual thread / process / queue layer for dataflows.processors.parallelize.

Real OS threads are used as coroutines: exactly one holds the baton; every queue/thread/process operation is a
scheduling point at which the explorer decides who runs next.  Items crossing a multiprocessing queue are pickled
(process isolation).  Timed joins fire only at quiescence (virtual time)."""
import sys
import pickle
import hashlib
import threading
import collections

_real_threading = threading


class Abort(BaseException):
    """Unwinds a virtual thread when an execution is abandoned (pruned, deadlocked, finished exploring)."""


MAX_EXPIRIES = 3
_CLOSE = b'\x00close-sentinel'


class VT:
    """A virtual thread (also used for virtual processes)."""

    def __init__(self, sched, target, args, kind, name):
        self.sched = sched
        self.target, self.args, self.kind, self.name = target, args, kind, name
        self.id = None
        self.sem = _real_threading.Semaphore(0)
        self.pending = None        # (op, obj, extra) the thread is about to perform
        self.started = False
        self.finished = False
        self.closed = False
        self.hist = hashlib.blake2b(digest_size=8)
        self.nops = 0
        self.os_thread = None
        self.exc = None
        self.daemon = False

    def owner(self):
        """The (virtual) OS process this thread of control belongs to."""
        return 'p%d' % self.id if self.kind == 'process' else 'main'

    def observe(self, *items):
        self.nops += 1
        self.hist.update(repr(items).encode())

    # --- threading.Thread / mp.Process API ---
    def start(self):
        self.sched.op(('start', self))
        parent = self.sched.current.owner()
        self.sched.register(self)
        if self.kind == 'process':
            # fork: the child gets the parent's pipe handles as they are at this moment - closed ones stay closed
            for q in self.sched.queues:
                if parent in getattr(q, 'handles_closed', ()):
                    q.handles_closed.add(self.owner())

    def join(self, timeout=None):
        r = self.sched.op(('join', self, timeout))
        return r

    def is_alive(self):
        return self.started and not self.finished

    def kill(self):
        self.sched.op(('kill', self))

    def terminate(self):
        self.sched.op(('kill', self))

    def close(self):
        self.sched.op(('close', self))
        if self.started and not self.finished:
            raise ValueError('Cannot close a process while it is still running. '
                             'You should first call join() or terminate().')
        self.closed = True

    def _run(self):
        self.sem.acquire()
        try:
            if self.sched.aborting:
                return
            self.target(*self.args)
            if self.kind == 'process':
                # a process joins its queue feeder threads before it exits
                self.sched.op(('flush', self))
        except Abort:
            pass
        except BaseException as e:    # noqa
            self.exc = e
        finally:
            self.finished = True
            self.sched.thread_done(self)


class VQueue:
    def __init__(self, sched, pickled, name, feeder=False):
        self.sched, self.pickled, self.name = sched, pickled, name
        self.items = collections.deque()
        # multiprocessing.Queue.put() only appends to a buffer local to the putting process; a feeder thread of that
        # process moves the items into the pipe later (FIFO per process, no order between processes)
        self.feeder = feeder
        self.buffers = {}
        self.feeders = {}
        # Queue.close() in one process: that process may not put/get any more (closed_in); its feeder thread, once it has
        # flushed what is buffered, closes the process's pipe handles (handles_closed) - a process forked later inherits them closed
        self.closed_in = set()
        self.handles_closed = set()

    def put(self, item, block=True, timeout=None):
        if self.sched.current.owner() in self.closed_in:
            raise ValueError('Queue %r is closed' % self.name)
        if self.feeder:
            self.sched.op(('put-local', self))
            owner = self.sched.current.owner()
            self.buffers.setdefault(owner, collections.deque()).append(pickle.dumps(item))
            if owner not in self.feeders:
                vt = VT(self.sched, self._feed, (owner,), 'feeder', 'feeder:%s:%s' % (self.name, owner))
                vt.daemon = True
                self.feeders[owner] = vt
                self.sched.register(vt)
            return
        self.sched.op(('put', self))
        self.items.append(pickle.dumps(item) if self.pickled else item)

    def _feed(self, owner):
        while True:
            self.sched.op(('feed', self, owner))
            x = self.buffers[owner].popleft()
            if x is _CLOSE:
                self.handles_closed.add(owner)
                return
            if owner in self.handles_closed:
                continue                  # send on a closed handle: the feeder reports the error, the item is lost
            self.items.append(x)

    def get(self, block=True, timeout=None):
        if self.sched.current.owner() in self.closed_in:
            raise ValueError('Queue %r is closed' % self.name)
        if self.sched.current.owner() in self.handles_closed:
            self.sched.op(('get-closed', self))
            raise OSError('handle is closed')
        if timeout is not None or not block:
            # a timed wait: it may expire whenever the rest of the system is only waiting for its environment
            self.sched.op(('get-timed', self))
            if not self.items:
                me = self.sched.current
                me.expiries = getattr(me, 'expiries', 0) + 1
                me.observe('get-timeout', self.name)
                raise __import__('queue').Empty()
        else:
            self.sched.op(('get', self))
            if not self.items:
                raise OSError('handle is closed')
        x = self.items.popleft()
        v = pickle.loads(x) if self.pickled else x
        self.sched.current.observe('get', self.name, repr(v))
        return v

    def snapshot(self):
        base = (tuple(x if self.pickled else pickle.dumps(x) for x in self.items),
                tuple(sorted((str(o), tuple(b)) for o, b in self.buffers.items() if b)))
        if self.closed_in or self.handles_closed:
            base = base + (tuple(sorted(self.closed_in)), tuple(sorted(self.handles_closed)))
        return base

    def peek_rows(self):
        out = [pickle.loads(x) if self.pickled else x for x in self.items]
        for b in self.buffers.values():
            out.extend(pickle.loads(x) for x in b if x is not _CLOSE)
        return out

    def empty(self):
        return not self.items

    def qsize(self):
        return len(self.items)

    def close(self):
        self.sched.op(('close-q', self))
        owner = self.sched.current.owner()
        if owner in self.closed_in:
            return
        self.closed_in.add(owner)
        if self.feeder and owner in self.feeders:
            self.buffers.setdefault(owner, collections.deque()).append(_CLOSE)

    def join_thread(self):
        pass

    def cancel_join_thread(self):
        pass


class Deadlock(Exception):
    pass


class Pruned(Exception):
    pass


class Sched:
    """One execution under a given choice prefix."""

    def __init__(self, prefix, on_point=None, line_module=None):
        self.prefix = list(prefix)
        self.on_point = on_point          # callback(sched, enabled, point_index) -> None | raises Pruned
        self.threads = []
        self.queues = []
        self.trace = []                   # (n_enabled, chosen_index, running_enabled, preemptions_so_far)
        self.current = None
        self.aborting = False
        self.deadlock = None
        self.preemptions = 0
        self.timeouts_fired = 0
        self.nqueues = 0
        self.line_module = line_module
        self.main = VT(self, None, (), 'main', 'main')
        self.main.started = True
        self.main.id = 0
        self.threads.append(self.main)
        self.current = self.main
        self.done_event = _real_threading.Event()
        self.delivered = []

    # ---- module facades -----------------------------------------------------------------
    def threading_mod(self):
        s = self

        class M:
            @staticmethod
            def Thread(target=None, args=(), kwargs=None, name=None, daemon=None):
                return VT(s, target, args, 'thread', name or 'thread')
        return M

    def mp_mod(self):
        s = self

        class M:
            @staticmethod
            def Process(target=None, args=(), kwargs=None, name=None):
                return VT(s, target, args, 'process', name or 'process')

            @staticmethod
            def Queue(maxsize=0):
                s.nqueues += 1
                q = VQueue(s, True, 'mpq%d' % s.nqueues, feeder=s.model_feeder)
                s.queues.append(q)
                return q
        return M

    def queue_mod(self):
        s = self

        class M:
            Empty = __import__('queue').Empty

            @staticmethod
            def Queue(maxsize=0):
                s.nqueues += 1
                q = VQueue(s, False, 'q%d' % s.nqueues)
                s.queues.append(q)
                return q
        return M

    # ---- core ----------------------------------------------------------------------------
    def register(self, vt):
        vt.id = len(self.threads)
        vt.started = True
        vt.pending = ('begin', vt, None)
        self.threads.append(vt)
        t = _real_threading.Thread(target=self._thread_main, args=(vt,), daemon=True)
        vt.os_thread = t
        t.start()

    def _thread_main(self, vt):
        if self.line_module:
            sys.settrace(self._tracer)
        vt._run()

    def _tracer(self, frame, event, arg):
        if frame.f_code.co_filename != self.line_module:
            return None
        if event == 'line' and not self.aborting and not self._in_op:
            self.op(('line', frame.f_lineno))
        return self._tracer

    _in_op = False

    def env_wait(self):
        """Scheduling point for a wait on the environment (the upstream iterator producing its next row): always
        enabled, but while every runnable thread sits at such a point virtual time may advance (timed waits expire)."""
        self.op(('env-pull', None))

    def enabled(self, vt):
        op = vt.pending
        if op is None:
            return False
        k = op[0]
        if k == 'get':
            return len(op[1].items) > 0 or vt.owner() in op[1].handles_closed
        if k == 'feed':
            return len(op[1].buffers.get(op[2], ())) > 0
        if k == 'flush':
            own = op[1].owner()
            return not any(q.buffers.get(own) for q in self.queues)
        if k == 'get-timed':
            if len(op[1].items) > 0:
                return True
            # horizon: a polling loop may see its timed wait expire MAX_EXPIRIES times per thread; after that the wait only
            # ends when an item arrives (otherwise a poll loop makes the execution space infinite)
            if getattr(vt, 'expiries', 0) >= MAX_EXPIRIES:
                return False
            # expiry: only when nothing but waits on the environment could run instead
            return not any(t is not vt and t.started and not t.finished and t.pending is not None and
                           t.pending[0] not in ('env-pull', 'get-timed') and self.enabled(t) for t in self.threads)
        if k == 'join':
            return op[1].finished or not op[1].started
        return True

    def op(self, op):
        """Scheduling point before `op` of the current thread."""
        me = self.current
        if self.aborting:
            raise Abort()
        self._in_op = True
        try:
            me.pending = op
            me.observe(op[0], getattr(op[1], 'name', op[1]) if len(op) > 1 else None)
            nxt, timed_out = self.choose(me)
            if nxt is not me:
                self.current = nxt
                nxt.sem.release()
                me.sem.acquire()
                if self.aborting:
                    raise Abort()
            me.pending = None
            if op[0] == 'join':
                fired = getattr(me, '_timeout_fired', False)
                me._timeout_fired = False
                me.observe('joined', op[1].finished, fired)
                return None
        finally:
            self._in_op = False

    def choose(self, me):
        """Pick the next thread to run among those whose pending op is enabled."""
        live = [t for t in self.threads if t.started and not t.finished and t.pending is not None]
        en = [t for t in live if self.enabled(t)]
        if not en and all(t.finished or not t.started or t.daemon for t in self.threads):
            return None, False          # only idle feeder threads are left: the execution is complete
        running_enabled = me is not None and me in en
        # canonical order: running thread first, then ascending ids
        en.sort(key=lambda t: (0 if t is me else 1, t.id))
        if not en:
            # quiescence: virtual time advances, the earliest timed join fires
            timed = [t for t in live if t.pending[0] == 'join' and t.pending[2] is not None]
            if timed:
                t = min(timed, key=lambda t: t.id)
                t._timeout_fired = True
                self.timeouts_fired += 1
                t.pending = ('timeout', t.pending[1], None)
                return t, True
            self.deadlock = [(t.name, t.pending[0], getattr(t.pending[1], 'name', None)) for t in live if not t.daemon]
            self.abort()
            raise Abort()
        idx = 0
        i = len(self.trace)
        if self.on_point is not None:
            try:
                self.on_point(self, en, i, running_enabled)
            except Pruned:
                self.pruned = True
                self.abort()
                raise Abort()
        if i < len(self.prefix):
            idx = self.prefix[i]
            if idx >= len(en):
                self.divergence = 'choice %d out of range (%d enabled) at point %d' % (idx, len(en), i)
                self.abort()
                raise Abort()
        if running_enabled and idx != 0:
            self.preemptions += 1
        self.trace.append((len(en), idx, running_enabled, self.preemptions))
        return en[idx], False

    def thread_done(self, vt):
        """Called by a finishing virtual thread (still holding the baton unless aborting)."""
        if self.aborting:
            return
        vt.pending = None
        try:
            nxt, _ = self.choose(None)
        except Abort:
            return
        if nxt is None:
            self.current = None
            self.done_event.set()
            return
        self.current = nxt
        nxt.sem.release()

    def abort(self):
        self.aborting = True
        self.done_event.set()
        for t in self.threads:
            if t is not self.current:
                t.sem.release()

    pruned = False
    divergence = None
    model_feeder = False

    def state_key(self, me_running=None):
        """Canonical state: queue contents + per-thread (kind, history, pending op) with workers sorted."""
        qs = tuple(q.snapshot() for q in self.queues)
        ths = []
        procs = []
        for t in self.threads:
            p = t.pending
            pend = None if p is None else (p[0], getattr(p[1], 'name', None) if len(p) > 1 and not isinstance(p[1], int) else p[1])
            item = (t.kind, t.finished, t.started, t.hist.hexdigest(), pend)
            (procs if t.kind == 'process' else ths).append(item)
        procs.sort()
        extra = self.extra_state() if self.extra_state is not None else None
        return hashlib.blake2b(repr((qs, ths, procs, len(self.delivered), extra)).encode(), digest_size=12).digest()

    extra_state = None

    # ---- running an execution ---------------------------------------------------------------
    def run(self, body):
        """Run body(sched) as the main virtual thread, then let the remaining threads run until all have finished
        (or nothing can move: deadlock).  Returns (result, exception, deadlock description or None)."""
        result, exc = None, None
        if self.line_module:
            sys.settrace(self._tracer)
        try:
            result = body(self)
        except Abort:
            pass
        except BaseException as e:    # noqa
            exc = e
        finally:
            if self.line_module:
                sys.settrace(None)
        if not self.aborting:
            self.main.finished = True
            self.thread_done(self.main)
            self.done_event.wait(30)
            if not self.done_event.is_set():
                self.divergence = 'execution did not settle within 30 s'
        self.abort()
        for t in self.threads:
            if t.os_thread is not None:
                t.os_thread.join(5)
        return result, exc, self.deadlock
