"""E4a - file-system recorder: crash states (process-kill semantics) and fs-operation fault injection.

While active, every mutation under a watched root is intercepted (builtins.open proxies, os.rename/replace/
remove/unlink/makedirs/mkdir, shutil.copy*/move; an audit hook independently watches open/rename/remove/mkdir/
copyfile so that a mutation through another API still produces crash points).  At every interception point
the *real directory content* is snapshotted: that is exactly what a SIGKILL at this point would leave behind
(data flushed to the kernel survives, user-space buffers do not).  Torn variants are added for data-carrying
operations (flush/close of buffered data, chunked copies), and pending-buffer variants model a partial automatic
flush of a user-space buffer."""
import io
import os
import sys
import shutil
import builtins
import contextlib

_ACTIVE = None
_HOOK_INSTALLED = False
_real_open = builtins.open
_real = {}


class InjectedFault(OSError):
    pass


def _snapshot(root):
    files, dirs = {}, set()
    if os.path.isdir(root):
        for dp, dn, fn in os.walk(root):
            rel = os.path.relpath(dp, root)
            if rel != '.':
                dirs.add(rel)
            for f in fn:
                p = os.path.join(dp, f)
                try:
                    with _real_open(p, 'rb') as fh:
                        files[os.path.relpath(p, root)] = fh.read()
                except OSError:
                    pass
    return files, frozenset(dirs)


def materialise_state(state, target):
    files, dirs = state
    os.makedirs(target, exist_ok=True)
    for d in sorted(dirs):
        os.makedirs(os.path.join(target, d), exist_ok=True)
    for rel, data in files.items():
        p = os.path.join(target, rel)
        os.makedirs(os.path.dirname(p), exist_ok=True)
        with _real_open(p, 'wb') as fh:
            fh.write(data)


def state_key(state):
    import hashlib
    hsh = hashlib.blake2b(digest_size=12)
    for k in sorted(state[0]):
        hsh.update(k.encode() + b'\0' + state[0][k] + b'\1')
    for d in sorted(state[1]):
        hsh.update(d.encode() + b'\2')
    return hsh.hexdigest()


class _Proxy:
    def __init__(self, rec, f, path, mode):
        self._rec, self._f, self._path, self._mode = rec, f, path, mode
        self._pending = []     # user-space buffered pieces (bytes)

    def _enc(self, data):
        if isinstance(data, str):
            return data.encode(getattr(self._f, 'encoding', None) or 'utf-8')
        return bytes(data)

    def write(self, data):
        self._rec.op('write', self._path)
        r = self._f.write(data)
        self._pending.append(self._enc(data))
        self._rec.pending_point(self._path, self._pending)
        return r

    def writelines(self, lines):
        for ln in lines:
            self.write(ln)

    def flush(self):
        self._rec.op('flush', self._path, carrying=b''.join(self._pending))
        self._f.flush()
        self._pending = []
        self._rec.point('after flush ' + self._rec.rel(self._path))

    def close(self):
        if not self._f.closed:
            self._rec.op('close', self._path, carrying=b''.join(self._pending))
            self._f.close()
            self._pending = []
            self._rec.point('after close ' + self._rec.rel(self._path))

    def __enter__(self):
        return self

    def __exit__(self, *a):
        self.close()

    def __iter__(self):
        return iter(self._f)

    def __getattr__(self, name):
        return getattr(self._f, name)


class Recorder:
    def __init__(self, root, fail_at=None, fail_exc=InjectedFault, call_at=None, callback=None):
        self.call_at = call_at          # index of the fs operation right before which callback() runs (an environment event
        self.callback = callback        # landing at that point, e.g. the garbage collector finalising an older pipeline)
        self.root = os.path.abspath(root)
        self.points = []          # (label, state)
        self.ops = []             # (index, kind, relpath)
        self.fail_at = fail_at
        self.fail_exc = fail_exc
        self.fired = None
        self.unshimmed = []
        self._in_shim = 0

    def rel(self, p):
        return os.path.relpath(os.path.abspath(p), self.root)

    def under(self, p):
        try:
            p = os.path.abspath(os.fspath(p))
        except TypeError:
            return False
        return p == self.root or p.startswith(self.root + os.sep)

    def point(self, label, state=None):
        self.points.append((label, state if state is not None else _snapshot(self.root)))

    def pending_point(self, path, pending):
        """Variants where a prefix of the user-space buffer has been written out by an automatic flush."""
        base = _snapshot(self.root)
        rel = self.rel(path)
        self.points.append(('after write ' + rel, base))
        acc = b''
        for i, piece in enumerate(pending):
            acc += piece
            files = dict(base[0])
            files[rel] = files.get(rel, b'') + acc
            self.points.append(('after write %s, buffer auto-flushed up to piece %d' % (rel, i + 1), (files, base[1])))

    def op(self, kind, path, carrying=None):
        """Called right before the real operation."""
        idx = len(self.ops)
        rel = self.rel(path)
        self.ops.append((idx, kind, rel))
        before = _snapshot(self.root)
        self.points.append(('before %s %s' % (kind, rel), before))
        if carrying:
            n = len(carrying)
            for off in sorted({1, n // 2, n - 1}):
                if 0 < off < n:
                    files = dict(before[0])
                    files[rel] = files.get(rel, b'') + carrying[:off]
                    self.points.append(('torn %s %s at byte %d/%d' % (kind, rel, off, n), (files, before[1])))
        if self.call_at is not None and idx == self.call_at and self.callback is not None:
            self._in_shim += 1
            try:
                self.callback()
            finally:
                self._in_shim -= 1
        if self.fail_at is not None and idx == self.fail_at:
            self.fired = (idx, kind, rel)
            raise self.fail_exc('injected fault at fs op #%d (%s %s)' % (idx, kind, rel))

    # ---- shims --------------------------------------------------------------------------
    def s_open(self, file, mode='r', *a, **k):
        if isinstance(file, (str, bytes, os.PathLike)) and self.under(file) and any(c in mode for c in 'wax+'):
            self.op('open', file)
            self._in_shim += 1
            try:
                f = _real_open(file, mode, *a, **k)
            finally:
                self._in_shim -= 1
            self.point('after open ' + self.rel(file))
            return _Proxy(self, f, os.fspath(file), mode)
        return _real_open(file, mode, *a, **k)

    def _wrap2(self, name, real):
        def f(src, dst, *a, **k):
            if self.under(dst) or self.under(src):
                self.op(name, dst)
                self._in_shim += 1
                try:
                    r = real(src, dst, *a, **k)
                finally:
                    self._in_shim -= 1
                self.point('after %s %s' % (name, self.rel(dst)))
                return r
            return real(src, dst, *a, **k)
        return f

    def _wrap1(self, name, real):
        def f(path, *a, **k):
            if self.under(path):
                self.op(name, path)
                self._in_shim += 1
                try:
                    r = real(path, *a, **k)
                finally:
                    self._in_shim -= 1
                self.point('after %s %s' % (name, self.rel(path)))
                return r
            return real(path, *a, **k)
        return f

    def s_copy(self, src, dst, *a, **k):
        """shutil.copy / copy2 / copyfile decomposed: create-empty -> chunks -> (chmod)."""
        if not self.under(dst):
            return _real['shutil.copy'](src, dst, *a, **k)
        if os.path.isdir(dst):
            dst = os.path.join(dst, os.path.basename(src))
        with _real_open(src, 'rb') as fh:
            data = fh.read()
        self.op('copy-create', dst)
        self._in_shim += 1
        try:
            out = _real_open(dst, 'wb')
        finally:
            self._in_shim -= 1
        try:
            n = len(data)
            cuts = sorted({0, 1, n // 2, n - 1, n} - {0}) if n else []
            pos = 0
            for c in cuts:
                if c <= pos or c > n:
                    continue
                self.op('copy-chunk', dst)
                out.write(data[pos:c])
                out.flush()
                pos = c
        finally:
            out.close()
        self.op('copy-chmod', dst)
        try:
            shutil.copymode(src, dst)
        except OSError:
            pass
        self.point('after copy ' + self.rel(dst))
        return dst

    def audit(self, event, args):
        if self._in_shim:
            return
        try:
            if event == 'open':
                path, mode = args[0], args[1]
                flags = args[2] if len(args) > 2 else 0
                writing = (mode and any(c in mode for c in 'wax+')) or \
                    (mode is None and flags & (os.O_WRONLY | os.O_RDWR | os.O_CREAT))
                if isinstance(path, (str, bytes)) and writing and self.under(path):
                    self.unshimmed.append(('open', self.rel(path)))
                    self.point('before unshimmed open ' + self.rel(path))
            elif event in ('os.rename', 'os.remove', 'os.mkdir', 'os.rmdir', 'shutil.copyfile', 'shutil.move',
                           'os.truncate', 'os.link', 'os.symlink'):
                paths = [a for a in args if isinstance(a, (str, bytes))]
                if any(self.under(p) for p in paths):
                    self.unshimmed.append((event, [self.rel(p) for p in paths if self.under(p)]))
                    self.point('before unshimmed %s' % event)
        except Exception:
            pass

    # ---- activation -----------------------------------------------------------------------
    @contextlib.contextmanager
    def active(self):
        global _ACTIVE, _HOOK_INSTALLED
        assert _ACTIVE is None
        if not _HOOK_INSTALLED:
            sys.addaudithook(_audit)
            _HOOK_INSTALLED = True
        saved = {
            'open': builtins.open, 'io.open': io.open,
            'os.rename': os.rename, 'os.replace': os.replace, 'os.remove': os.remove, 'os.unlink': os.unlink,
            'os.makedirs': os.makedirs, 'os.mkdir': os.mkdir,
            'shutil.copy': shutil.copy, 'shutil.copy2': shutil.copy2, 'shutil.copyfile': shutil.copyfile,
            'shutil.move': shutil.move,
        }
        _real.update(saved)
        builtins.open = self.s_open
        os.rename = self._wrap2('rename', saved['os.rename'])
        os.replace = self._wrap2('replace', saved['os.replace'])
        os.remove = self._wrap1('remove', saved['os.remove'])
        os.unlink = self._wrap1('unlink', saved['os.unlink'])
        os.mkdir = self._wrap1('mkdir', saved['os.mkdir'])
        real_makedirs = saved['os.makedirs']

        def s_makedirs(name, mode=0o777, exist_ok=False):
            if self.under(name) and not os.path.isdir(name):
                self.op('makedirs', name)
                self._in_shim += 1
                try:
                    r = real_makedirs(name, mode, exist_ok)
                finally:
                    self._in_shim -= 1
                self.point('after makedirs ' + self.rel(name))
                return r
            return real_makedirs(name, mode, exist_ok)
        os.makedirs = s_makedirs
        shutil.copy = self.s_copy
        shutil.copy2 = self.s_copy
        shutil.copyfile = self.s_copy
        shutil.move = self._wrap2('move', saved['shutil.move'])
        _ACTIVE = self
        self.point('start')
        try:
            yield self
        finally:
            _ACTIVE = None
            builtins.open = saved['open']
            os.rename, os.replace, os.remove, os.unlink = saved['os.rename'], saved['os.replace'], saved['os.remove'], saved['os.unlink']
            os.makedirs, os.mkdir = saved['os.makedirs'], saved['os.mkdir']
            shutil.copy, shutil.copy2, shutil.copyfile, shutil.move = saved['shutil.copy'], saved['shutil.copy2'], saved['shutil.copyfile'], saved['shutil.move']
            self.point('end')

    def crash_states(self):
        """Deduplicated list of (label, state)."""
        seen, out = set(), []
        for label, st in self.points:
            k = state_key(st)
            if k not in seen:
                seen.add(k)
                out.append((label, st))
        return out


def _audit(event, args):
    r = _ACTIVE
    if r is not None:
        r.audit(event, args)
