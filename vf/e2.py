"""E2 - small-scope input enumerator: generic batch runner. A property module provides
check(case) -> (violations [(signature, what)], outcome, nontrivial)."""
import importlib

from .core import h


def _batch(args):
    modname, cases = args
    m = importlib.import_module(modname)
    out = {'n': 0, 'keys': [], 'outcomes': {}, 'viol': []}
    seen = set()
    for case in cases:
        viol, outcome, nontrivial = m.check(case)
        out['n'] += 1
        out['outcomes'][outcome] = out['outcomes'].get(outcome, 0) + 1
        if nontrivial:
            out['keys'].append(h(case))
        for sig, what in viol:
            if sig not in seen:
                seen.add(sig)
                out['viol'].append((sig, what, case))
    out['sample'] = cases[0]
    return out


def run_cases(run, modname, cases, batch=40, limit=900):
    cases = list(cases)
    batches = [cases[i:i + batch] for i in range(0, len(cases), batch)]
    if batches:
        k = run.seed % len(batches)
        batches = batches[k:] + batches[:k]
    for res in run.map(_batch, [(modname, b) for b in batches], chunksize=1, limit=limit):
        run.absorb(res)
    return len(cases)
