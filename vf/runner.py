"""Runner: worker pool, counters, evidence, known-findings matcher, replay artefacts, exit code."""
import os
import re
import sys
import json
import time
import shutil
import atexit
import traceback
import subprocess
import collections
import multiprocessing

from . import core

KNOWN_FILE = os.path.join(core.VERIF, 'KNOWN_FINDINGS.txt')
# evaluations of seeded changes (VERIF_REPO=<scratch worktree>) must not overwrite the evidence of the real tree
EVIDENCE_DIR = os.environ.get('VERIF_EVIDENCE_DIR') or os.path.join(core.VERIF, 'evidence')
REPLAY_DIR = os.environ.get('VERIF_REPLAY_DIR') or os.path.join(core.VERIF, 'replays')
NPROC = int(os.environ.get('VERIF_NPROC', '0')) or min(16, os.cpu_count() or 4)


def load_known(prop):
    known, fixed = {}, []
    if os.path.exists(KNOWN_FILE):
        for line in open(KNOWN_FILE, encoding='utf-8'):
            line = line.strip()
            if not line or line.startswith('#'):
                continue
            m = re.match(r'known: property=(\S+) sig=(\S+) :: (.*)$', line)
            if m and m.group(1) == prop:
                known[m.group(2)] = m.group(3)
            m = re.match(r'fixed: property=(\S+) (.*)$', line)
            if m and m.group(1) == prop:
                fixed.append(m.group(2))
    return known, fixed


def _quiet_unraisable(unraisable):
    # kvfile's __del__ flushes to a temporary database that the scratch cleanup has already removed: noise at exit
    pass


def _worker_init(scratch_root, memo):
    sys.unraisablehook = _quiet_unraisable
    core.set_scratch_root(os.path.join(scratch_root, 'w%d' % os.getpid()))
    if memo:
        core.install_memo()
    core.setup_logging_quiet()
    import warnings
    warnings.simplefilter('ignore')


def _call(args):
    fn, item, limit = args
    try:
        with core.time_limit(limit):
            with core.quiet():
                return fn(item)
    except core.CaseTimeout as e:
        return {'timeout': True, 'item': item, 'err': str(e)}
    except BaseException as e:   # harness error inside a worker: never a verdict
        return {'harness_error': True, 'item': item,
                'err': ''.join(traceback.format_exception(type(e), e, e.__traceback__))[-3000:]}


class Run:
    def __init__(self, prop, tier, seed, level):
        self.prop, self.tier, self.seed, self.level = prop, tier, seed, level
        self.t0 = time.time()
        self.evaluations = 0
        self.distinct = set()
        self.outcomes = collections.Counter()
        self.samples = []
        self.states = 0
        self.transitions = 0
        self.traces = 0
        self.violations = collections.OrderedDict()   # sig -> [ (what, witness) ... ]
        self.harness_errors = []
        self.timeouts = []
        self.caps = []
        self.extra = {}
        self.rule = ''
        self.assumptions = []
        self.explanation = ''
        self._pool = None
        self.memo = not os.environ.get('VERIF_NO_MEMO')
        self.root = core.scratch_root()
        atexit.register(self._cleanup)
        if self.memo:
            core.install_memo()
            self.assumptions.append(
                'datapackage.Profile._check_schema (validation of the bundled profile against the '
                'JSON-Schema meta-schema) and registry loads are memoised per profile name during '
                'exploration; replays run without it')
        core.setup_logging_quiet()
        sys.unraisablehook = _quiet_unraisable
        import warnings
        warnings.simplefilter('ignore')
        self.deadline = None
        b = os.environ.get('VERIF_BUDGET_S')
        if b:
            self.deadline = self.t0 + float(b)

    # -- pool ------------------------------------------------------------------------------
    def pool(self):
        if self._pool is None:
            ctx = multiprocessing.get_context('fork')
            self._pool = ctx.Pool(NPROC, initializer=_worker_init, initargs=(self.root, self.memo))
        return self._pool

    def map(self, fn, items, chunksize=None, limit=60):
        """Ordered parallel map; worker exceptions become harness errors (exit 2)."""
        items = list(items)
        if not items:
            return
        if NPROC == 1 or len(items) < 4:
            for it in items:
                yield self._filter(_call((fn, it, limit)))
            return
        if chunksize is None:
            chunksize = max(1, min(64, len(items) // (NPROC * 8)))
        for res in self.pool().imap(_call, ((fn, it, limit) for it in items), chunksize):
            yield self._filter(res)

    def _filter(self, res):
        if isinstance(res, dict) and res.get('harness_error'):
            self.harness_errors.append(res)
            return None
        if isinstance(res, dict) and res.get('timeout'):
            self.timeouts.append(res)
            return res
        return res

    # -- bookkeeping -----------------------------------------------------------------------
    def count(self, key=None, nontrivial=True, outcome=None, n=1):
        self.evaluations += n
        if key is not None and nontrivial:
            self.distinct.add(key)
        if outcome is not None:
            self.outcomes[outcome] += 1

    def sample(self, obj, every=1000, cap=12):
        if len(self.samples) < 3 or (self.evaluations % every == 0 and len(self.samples) < cap):
            self.samples.append(obj)

    def violation(self, sig, what, witness):
        self.violations.setdefault(sig, []).append((what, witness))

    def absorb(self, res):
        """Standard result record from a worker:
        {'key','nontrivial','outcome','viol':[(sig,what,witness)],'sample', 'n', 'states','transitions','traces'}"""
        if res is None:
            return
        if res.get('timeout'):
            return
        self.count(res.get('key'), res.get('nontrivial', True), res.get('outcome'), res.get('n', 1))
        for k in res.get('keys', ()):
            self.distinct.add(k)
        for o, c in (res.get('outcomes') or {}).items():
            self.outcomes[o] += c
        self.states += res.get('states', 0)
        self.transitions += res.get('transitions', 0)
        self.traces += res.get('traces', 0)
        if 'sample' in res:
            self.sample(res['sample'])
        for sig, what, witness in res.get('viol', ()):
            self.violation(sig, what, witness)

    def out_of_time(self):
        return self.deadline is not None and time.time() > self.deadline

    # -- finish ----------------------------------------------------------------------------
    def _cleanup(self):
        if self._pool is not None:
            try:
                self._pool.terminate()
                self._pool.join()
            except Exception:
                pass
            self._pool = None
        if os.getpid() == int(self.root.rsplit('-', 1)[-1]):
            shutil.rmtree(self.root, ignore_errors=True)

    def finish(self, replay_confirm=True):
        if self._pool is not None:
            self._pool.terminate()     # workers may hold leaked non-daemon library threads: never wait for them
            self._pool.join()
            self._pool = None
        known, fixed = load_known(self.prop)
        alarms = 0
        os.makedirs(REPLAY_DIR, exist_ok=True)
        seen_known = set()
        for sig, items in self.violations.items():
            what, witness = items[0]
            if sig in known:
                seen_known.add(sig)
                print('KNOWN-FINDING: property=%s %s [sig=%s; %d case(s) this run]' %
                      (self.prop, known[sig], sig, len(items)))
                continue
            confirmed = None
            # a failure may depend on what the same process did before (a cache at module scope, say): if the first
            # witness does not reproduce on its own, try the later ones of the same signature before giving up
            tried = 0
            for what, witness in items[:1] + items[1:][-6:]:
                path = os.path.join(REPLAY_DIR, '%s-%s-%s.json' % (self.prop, re.sub(r'[^A-Za-z0-9_.-]+', '_', sig)[:80],
                                                                   core.h(witness)[:8]))
                with open(path, 'w', encoding='utf-8') as f:
                    json.dump({'property': self.prop, 'sig': sig, 'what': what, 'witness': witness,
                               'cases_this_run': len(items)}, f, indent=1, sort_keys=True, default=core.enc)
                if not replay_confirm or os.environ.get('VERIF_NO_CONFIRM'):
                    confirmed = True
                    break
                tried += 1
                ok = confirm_replay(self.prop, path)
                if ok is not False:
                    confirmed = True
                    break
            if not confirmed:
                print('HARNESS-ERROR: property=%s sig=%s did not reproduce from any of %d artefacts (last: %s)' %
                      (self.prop, sig, tried, path))
                self.harness_errors.append({'err': 'replay of %s did not reproduce' % path})
                continue
            alarms += 1
            print('VIOLATION property=%s replay=%s' % (self.prop, path))
            print('  sig=%s :: %s (%d case(s))' % (sig, what, len(items)))
        for sig in known:
            if sig not in seen_known and not self.extra.get('partial'):
                print('NOTE: known finding not observed in this tier (stale or out of tier scope): property=%s sig=%s'
                      % (self.prop, sig))
        for t in self.timeouts[:5]:
            print('NOTE: case hit the per-case horizon: %s' % (core.cj(t.get('item'))[:300]))
        self.write_evidence(alarms)
        for he in self.harness_errors[:3]:
            print('HARNESS-ERROR: %s' % he.get('err', '')[-1500:], file=sys.stderr)
        if alarms:
            return 1
        if self.harness_errors:
            return 2
        return 0

    def write_evidence(self, alarms):
        os.makedirs(EVIDENCE_DIR, exist_ok=True)
        cov = {
            'evaluations': self.evaluations,
            'distinct_nontrivial': len(self.distinct),
            'rule': self.rule,
            'samples': self.samples[:12] or ['(none)'],
            'distinct_outcomes': len(self.outcomes),
            'outcome_histogram': dict(self.outcomes.most_common(40)),
            'exhaustive': not self.caps and not self.timeouts and not self.harness_errors,
            'caps_hit': self.caps,
            'timeouts': len(self.timeouts),
            'explanation': self.explanation,
            'violation_signatures': {s: len(v) for s, v in self.violations.items()},
        }
        if self.level == 'model_checking':
            cov['states'] = self.states
            cov['transitions'] = self.transitions
            cov['traces_validated_against_impl'] = self.traces
        cov.update(self.extra)
        ev = {
            'property_id': self.prop, 'tier': self.tier, 'seed': self.seed, 'level': self.level,
            'coverage': cov, 'assumptions': self.assumptions,
            'wall_s': round(time.time() - self.t0, 2), 'violations': alarms,
        }
        path = os.path.join(EVIDENCE_DIR, '%s.json' % self.prop)
        tmp = path + '.tmp'
        with open(tmp, 'w', encoding='utf-8') as f:
            json.dump(ev, f, indent=1, sort_keys=True, default=core.enc)
        try:
            import jsonschema
            schema = json.load(open('/root/.vp/EVIDENCE.schema.json'))
            jsonschema.validate(json.load(open(tmp)), schema)
        except FileNotFoundError:
            pass
        except Exception as e:        # e.g. nothing could be explored at all: say so, never crash without a verdict line
            print('HARNESS-ERROR: evidence does not satisfy its schema: %s' % str(e).splitlines()[0])
            self.harness_errors.append({'err': 'evidence invalid: %s' % str(e)[:200]})
        os.replace(tmp, path)
        print('%s tier=%s seed=%d evaluations=%d distinct_nontrivial=%d states=%d transitions=%d outcomes=%d '
              'exhaustive=%s wall=%.1fs' % (self.prop, self.tier, self.seed, self.evaluations, len(self.distinct),
                                           self.states, self.transitions, len(self.outcomes), cov['exhaustive'],
                                           time.time() - self.t0))


def confirm_replay(prop, path):
    """Re-execute the artefact in a fresh process, unmemoised. True: reproduces, False: does not."""
    env = dict(os.environ)
    env['VERIF_NO_MEMO'] = '1'
    try:
        p = subprocess.run([sys.executable, '-m', 'vf', prop, '--replay', path], cwd=core.VERIF, env=env,
                           stdout=subprocess.PIPE, stderr=subprocess.STDOUT, timeout=600)
    except subprocess.TimeoutExpired:
        return None
    return p.returncode == 1 and b'VIOLATION' in p.stdout
