"""Shared by C03/C09: value alphabets per Table Schema type, running a dump, independent decode of the files."""
import os
import csv
import json
import copy
import zipfile
import hashlib
import decimal
import datetime

import tableschema

from . import core
from .core import mkstate, enc

D = decimal.Decimal
ALPHA = {
    'string': ['a', 'a,b', 'q"q', 'l1\nl2', 'é😀', '', 'C:\\t\\n', "'", ';|x', ' lead'],
    'integer': [-1, 0, 10 ** 20],
    'number': [-1, 0.1, D('1.000000000000000000001'), 1e-7, D('1E+2'), D('1234567890.1234567890123456789012345')],
    'boolean': [True, False],
    'date': [datetime.date(2020, 1, 2), datetime.date(999, 12, 31)],
    'time': [datetime.time(1, 2, 3), datetime.time(23, 59, 59)],
    'datetime': [datetime.datetime(2020, 1, 2, 3, 4, 5), datetime.datetime(1, 1, 1, 0, 0, 0)],
    'year': [2020, 1],
    'array': [[1, 'a', [2.5, None]], [], ['q"\n\\']],
    'object': [{'k': [1, {'n': None}], 'é': 'x'}, {}],
}
TEMPORAL_FMT = {'date': '%d/%m/%Y', 'time': '%Hh%Mm%Ss', 'datetime': '%d/%m/%Y %H:%M:%S'}


def typed_eq(a, b, double=False, strip=False):
    """Typed equality; numbers by exact Decimal value (CSV) or by IEEE double (JSON). strip: text compared modulo leading
    and trailing blanks (load() strips by default, as documented)."""
    if a is None or b is None:
        return a is None and b is None
    if strip and isinstance(a, str) and isinstance(b, str):
        return a.strip() == b.strip()
    num = (int, float, D)
    if isinstance(a, num) and isinstance(b, num) and not isinstance(a, bool) and not isinstance(b, bool):
        if double:
            return float(a) == float(b)
        return D(str(a)) == D(str(b))
    if isinstance(a, (list, tuple)) and isinstance(b, (list, tuple)):
        return len(a) == len(b) and all(typed_eq(x, y, True) for x, y in zip(a, b))
    if isinstance(a, dict) and isinstance(b, dict):
        return a.keys() == b.keys() and all(typed_eq(a[k], b[k], True) for k in a)
    return type(a) is type(b) and a == b


def rows_eq(x, y, double=False, strip=False):
    return len(x) == len(y) and all(r.keys() == s.keys() and all(typed_eq(r[k], s[k], double, strip) for k in r) for r, s in zip(x, y))


TEMPORAL_FMT2 = {'date': '%Y.%m.%d', 'time': '%S-%M-%H', 'datetime': '%Y.%m.%d %H-%M-%S'}


def build_state(resources, pk=False, temporal_prop=None, reverse_row_keys=False):
    """resources: list of (name, [(fname, ftype)], rows).  With temporal_prop, the first field of each temporal type gets
    one output format, the second a different one, the third none (the dumper's default)."""
    res = []
    for name, fields, rows in resources:
        fl = []
        seen = {}
        for fn, ft in fields:
            fd = {'name': fn, 'type': ft, 'format': 'default'}
            if temporal_prop and ft in TEMPORAL_FMT:
                k = seen.get(ft, 0)
                seen[ft] = k + 1
                if k % 3 == 0:
                    fd[temporal_prop] = TEMPORAL_FMT[ft]
                elif k % 3 == 1:
                    fd[temporal_prop] = TEMPORAL_FMT2[ft]
            fl.append(fd)
        if reverse_row_keys:
            # same cells, but each row dict lists its keys in the opposite order to the schema
            rows = [dict(reversed(list(r.items()))) for r in rows]
        res.append((name, fl, rows))
    st = mkstate(res)
    if pk:
        for r in st.desc['resources']:
            # key on the first hashable-typed field (a list/dict cannot be a unique key in the schema library)
            ok = [f['name'] for f in r['schema']['fields'] if f['type'] not in ('array', 'object')]
            if ok:
                r['schema']['primaryKey'] = [ok[0]]
    return st


options_after_mutation = [False]
chain_after = [None]


def run_dump(st, d, how='path', **options):
    """Dump st. Returns (emitted rows via results(), descriptor, stats, root dir of the extracted dump)."""
    if how == 'path':
        out = os.path.join(d, 'out')
        step = core.dataflows.dump_to_path(out, **options)
    else:
        out = os.path.join(d, 'out.zip')
        step = core.dataflows.dump_to_zip(out, **options)
    links = [core.from_state(st), step]
    if chain_after[0]:
        links.append(core.dataflows.dump_to_zip(os.path.join(d, 'chained.zip'), format=chain_after[0]))
    if options_after_mutation[0]:
        def mutate(row):
            # edits the row objects that have already passed the dumper
            for k in list(row):
                v = row[k]
                if isinstance(v, str):
                    row[k] = v + '~later'
                elif isinstance(v, bool):
                    row[k] = not v
                elif isinstance(v, int):
                    row[k] = v + 1
                elif isinstance(v, list):
                    v.append('later')
                elif isinstance(v, dict):
                    v['later'] = 1
        captured = []

        def capture(package):
            yield package.pkg
            for res in package:
                mine = []
                captured.append(mine)

                def it(res=res, mine=mine):
                    for r in res:
                        mine.append(copy.deepcopy(r))
                        yield r
                yield it()
        links = [core.from_state(st), step, capture, mutate]
        _, dp, stats = core.Flow(*links).results(on_error=None)
        rows = None
    else:
        rows, dp, stats = core.Flow(*links).results()
    if how == 'zip':
        root = os.path.join(d, 'unzipped')
        with zipfile.ZipFile(out) as z:
            z.extractall(root)
    else:
        root = out
    if rows is None:
        # what entered the dumper = what it emitted at that moment (captured right behind it), re-cast like results() does
        back = core.materialise(core.from_state(core.State(copy.deepcopy(dp.descriptor), captured)), via='results')
        rows = back.rows
    return rows, copy.deepcopy(dp.descriptor), stats, root, out


def decode_resource(root, r):
    """Decode one data file with std modules + tableschema casts, using only what the written descriptor records."""
    fp = os.path.join(root, r['path'])
    mv = r['schema'].get('missingValues', [''])
    fields = [tableschema.Field(f, missing_values=mv) for f in r['schema']['fields']]
    byname = {f.name: f for f in fields}
    rows = []
    if fp.endswith('.xlsx'):
        import openpyxl
        wb = openpyxl.load_workbook(fp, read_only=True)
        try:
            cells = [list(row) for row in wb.worksheets[0].iter_rows(values_only=True)]
        finally:
            wb.close()
        header = cells[0] if cells else []
        return [dict(zip(header, c)) for c in cells[1:]]       # raw cell values (no casts): used for row counts only
    if r.get('format') == 'json':
        with open(fp, encoding=r.get('encoding', 'utf-8')) as fh:
            for item in json.load(fh):
                rows.append({k: byname[k].cast_value(v) for k, v in item.items()})
    else:
        dia = r.get('dialect', {})
        with open(fp, encoding=r.get('encoding', 'utf-8'), newline='') as fh:
            rd = csv.reader(fh, delimiter=dia.get('delimiter', ','), quotechar=dia.get('quoteChar', '"'),
                            doublequote=dia.get('doubleQuote', True), skipinitialspace=dia.get('skipInitialSpace', False))
            header = next(rd)
            for cells in rd:
                rows.append({k: byname[k].cast_value(v) for k, v in zip(header, cells)})
    return rows


def file_facts(root, r):
    fp = os.path.join(root, r['path'])
    if not os.path.exists(fp):
        return None
    data = open(fp, 'rb').read()
    return {'bytes': len(data), 'md5': hashlib.md5(data).hexdigest()}
