#!/venv/bin/python
"""Intake of a seeded change produced by a sub-agent: copy into /verif/seeded/<id>, confirm on a scratch worktree that
the pinned suite still passes with it and that its demo fails with / passes without the change, then run the target
property's check (and optionally others) against it. Writes meta.json.
usage: seed_intake.py Cxx k [--checks C01,C05] [--tier quick] [--nosuite]"""
import os, sys, json, shutil, subprocess, argparse, time, re

ap = argparse.ArgumentParser()
ap.add_argument('prop'); ap.add_argument('k')
ap.add_argument('--checks', default=None); ap.add_argument('--tier', default='quick'); ap.add_argument('--nosuite', action='store_true')
ap.add_argument('--src', default='/tmp/mut'); ap.add_argument('--wave', type=int, default=1)
a = ap.parse_args()
src = '%s/%s_out' % (a.src, a.prop)
sid = '%s-%s' % (a.prop, int(a.k) + 2 * (a.wave - 1))
dst = '/verif/seeded/%s' % sid
os.makedirs(dst, exist_ok=True)
for f, t in (('patch%s.diff' % a.k, 'patch.diff'), ('demo%s.py' % a.k, 'demo.py'), ('notes%s.md' % a.k, 'notes.md')):
    if os.path.exists(os.path.join(src, f)):
        shutil.copy(os.path.join(src, f), os.path.join(dst, t))
meta_path = os.path.join(dst, 'meta.json')
meta = json.load(open(meta_path)) if os.path.exists(meta_path) else {}
meta.update({'id': sid, 'property': a.prop, 'wave': a.wave, 'source': 'independent sub-agent given only the property text and a scratch worktree'})
notes = open(os.path.join(dst, 'notes.md')).read() if os.path.exists(os.path.join(dst, 'notes.md')) else ''
meta['needs_to_manifest'] = notes.strip()[:1500]
wt = '/tmp/intake-%s' % sid
subprocess.call(['git', '-C', '/repo', 'worktree', 'remove', '--force', wt], stdout=subprocess.DEVNULL, stderr=subprocess.DEVNULL)
subprocess.check_call(['git', '-C', '/repo', 'worktree', 'add', '--detach', wt, 'HEAD'], stdout=subprocess.DEVNULL, stderr=subprocess.DEVNULL)
try:
    r = subprocess.run(['git', '-C', wt, 'apply', os.path.join(dst, 'patch.diff')], stderr=subprocess.PIPE)
    if r.returncode != 0:
        # /repo moved on (fix: commits): rebase the change with a 3-way apply and keep the rebased diff
        r = subprocess.run(['git', '-C', wt, 'apply', '-3', os.path.join(dst, 'patch.diff')], stderr=subprocess.PIPE)
        if r.returncode == 0 and not subprocess.check_output(['git', '-C', wt, 'diff', '--name-only', '--diff-filter=U']).strip():
            subprocess.check_call(['git', '-C', wt, 'reset', '-q'])
            shutil.copy(os.path.join(dst, 'patch.diff'), os.path.join(dst, 'patch.orig.diff'))
            open(os.path.join(dst, 'patch.diff'), 'wb').write(subprocess.check_output(['git', '-C', wt, 'diff']))
            meta['rebased'] = 'patch.diff was rebased (git apply -3) onto /repo HEAD after later fix: commits; the original is patch.orig.diff'
            for k in ('demo_with_change', 'demo_without_change', 'suite_with_change'):
                meta.pop(k, None)
        else:
            r = subprocess.CompletedProcess([], 1, stderr=r.stderr)
    meta['applies'] = r.returncode == 0
    if r.returncode != 0:
        meta['apply_error'] = r.stderr.decode()[-300:]
    else:
        files = subprocess.check_output(['git', '-C', wt, 'diff', '--stat']).decode()
        meta['files_changed'] = [l.split('|')[0].strip() for l in files.splitlines() if '|' in l]
        demo = os.path.join(dst, 'demo.py')
        def run_demo(path):
            p = subprocess.run(['timeout', '-k', '5', '300', '/venv/bin/python', demo, path], stdout=subprocess.PIPE, stderr=subprocess.STDOUT, cwd='/tmp', start_new_session=True)
            return p.returncode, p.stdout.decode()[-300:]
        if 'demo_with_change' not in meta or 'demo_without_change' not in meta:
            meta['demo_with_change'] = run_demo(wt)[0]
            meta['demo_without_change'] = run_demo('/repo')[0]
        if not a.nosuite and 'suite_with_change' not in meta:
            p = subprocess.run('cd %s && timeout -k 5 1500 /venv/bin/python -m pytest -q -p no:cacheprovider --timeout=900 tests 2>&1 | tail -1' % wt,
                               shell=True, stdout=subprocess.PIPE)
            meta['suite_with_change'] = p.stdout.decode().strip()[-120:]
        checks = (a.checks or a.prop).split(',')
        env = dict(os.environ, VERIF_REPO=wt, VERIF_EVIDENCE_DIR='/tmp/mut_evidence/%s' % os.path.basename(wt), VERIF_REPLAY_DIR='/tmp/mut_replays/%s' % os.path.basename(wt))
        meta.setdefault('checks', {})
        for c in checks:
            t = time.time()
            p = subprocess.run(['./check', c, '--tier', a.tier], cwd=os.environ.get('VERIF_HOME', '/verif'), env=env, stdout=subprocess.PIPE, stderr=subprocess.STDOUT)
            out = p.stdout.decode()
            sigs = [l.strip()[:240] for l in out.splitlines() if l.strip().startswith('sig=')]
            nviol = len([l for l in out.splitlines() if l.startswith('VIOLATION')])
            meta['checks']['%s:%s' % (c, a.tier)] = {'rc': p.returncode, 'violations': nviol, 'first_signatures': sigs[:3], 'wall_s': round(time.time() - t, 1)}
        meta['what_was_run'] = 'git apply on a scratch worktree of /repo HEAD; pinned suite; demo.py with/without the change; ./check <prop> --tier %s with VERIF_REPO=<worktree>' % a.tier
finally:
    subprocess.call(['git', '-C', '/repo', 'worktree', 'remove', '--force', wt], stdout=subprocess.DEVNULL, stderr=subprocess.DEVNULL)
    shutil.rmtree(wt, ignore_errors=True)
json.dump(meta, open(meta_path, 'w'), indent=1)
det = {k: v['violations'] for k, v in meta.get('checks', {}).items()}
print(sid, 'applies=%s' % meta.get('applies'), 'suite=%r' % meta.get('suite_with_change'), 'demo with/without=%s/%s' % (meta.get('demo_with_change'), meta.get('demo_without_change')), 'detected=%s' % det)
