#!/venv/bin/python
"""Prints the markdown table of seeded changes (DESIGN.md section 12) from /verif/seeded/*/meta.json."""
import os, json, glob, re
rows = []
for m in sorted(glob.glob('/verif/seeded/*/meta.json')):
    j = json.load(open(m))
    notes = j.get('needs_to_manifest', '')
    first = ''
    for ln in notes.splitlines():
        ln = ln.strip().lstrip('#').strip()
        if ln and not ln.lower().startswith(('c0', 'c1', 'c2', 'mutant', 'change', 'notes')):
            first = ln
            break
    if not first:
        first = notes.strip().splitlines()[0] if notes.strip() else ''
    det = []
    for k, v in sorted(j.get('checks', {}).items()):
        det.append('%s: %s' % (k, ('**%d VIOLATION**' % v['violations']) if v['violations'] else 'missed'))
    sig = ''
    for k, v in j.get('checks', {}).items():
        if v.get('first_signatures'):
            sig = v['first_signatures'][0].split('::')[0].replace('sig=', '').strip()
            break
    rows.append('| %s | %s | %s | %s | %s | %s |' % (j['id'], ', '.join(os.path.basename(f) for f in j.get('files_changed', [])),
                first[:170].replace('|', '/'), j.get('suite_with_change', '').split(',')[1].strip() if ',' in j.get('suite_with_change', '') else j.get('suite_with_change', ''),
                '%s/%s' % (j.get('demo_with_change'), j.get('demo_without_change')), '; '.join(det) + (' `%s`' % sig if sig else '')))
print('| id | files | change (first line of the author\'s notes) | suite with change | demo rc with/without | checks |')
print('|---|---|---|---|---|---|')
print('\n'.join(rows))
